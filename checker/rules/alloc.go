package rules

import (
	"go/token"
	"go/types"
	"strings"

	"golang.org/x/tools/go/ssa"

	"polyverif/core"
	"polyverif/eng"
	"polyverif/ir"
)

// AL — wire-bounded allocation.  A decoder must not size an allocation by an
// integer it has just read from the wire unless that integer is first bounded:
// make([]T, n) with n = 2^62 panics ("makeslice: len out of range") instead of
// returning an error.  Counts read as u8/u16 are bounded by their type.  Map
// size hints are exempt (they cannot panic).

// wireCount: v (after conversions / small arithmetic) is the result of a wire
// read of an unbounded width; returns the underlying read value.
func wireCount(v ssa.Value, depth int) (ssa.Value, string) {
	if v == nil || depth > 5 {
		return nil, ""
	}
	switch x := v.(type) {
	case *ssa.Convert:
		return wireCount(x.X, depth+1)
	case *ssa.ChangeType:
		return wireCount(x.X, depth+1)
	case *ssa.BinOp:
		if x.Op == token.MUL || x.Op == token.ADD {
			if r, k := wireCount(x.X, depth+1); r != nil {
				return r, k
			}
			return wireCount(x.Y, depth+1)
		}
	case *ssa.Extract:
		if x.Index != 0 {
			return nil, ""
		}
		if cl, ok := x.Tuple.(*ssa.Call); ok {
			if k := wireReadKind(cl); k != "" {
				return x, k
			}
		}
	case *ssa.Call:
		if k := wireReadKind(x); k != "" {
			return x, k
		}
	case *ssa.Phi:
		for _, e := range x.Edges {
			if r, k := wireCount(e, depth+1); r != nil {
				return r, k
			}
		}
	}
	return nil, ""
}

func wireReadKind(cl *ssa.Call) string {
	o := ir.CalleeObj(cl)
	if o == nil {
		return ""
	}
	n := o.Name()
	switch {
	case n == "NextVarUint" || n == "ReadVarUint" || n == "DecodeVarUint":
		return "varuint"
	case n == "NextUint64" || n == "ReadUint64" || n == "NextInt64":
		return "u64"
	case n == "NextUint32" || n == "ReadUint32":
		return "u32"
	}
	return ""
}

// checkWireAllocs examines every make() in the given functions.
func checkWireAllocs(c *core.Ctx, rule string, fns []*ssa.Function) (nMakes, nWire int) {
	for _, fn := range fns {
		for _, b := range fn.Blocks {
			for _, in := range b.Instrs {
				var sizes []ssa.Value
				var pos token.Pos
				switch x := in.(type) {
				case *ssa.MakeSlice:
					sizes, pos = []ssa.Value{x.Len}, x.Pos()
					if x.Cap != x.Len {
						sizes = append(sizes, x.Cap)
					}
				case *ssa.MakeMap:
					// a map size hint never panics: the runtime clamps an overflowing hint to 0
					// (runtime.makemap); large hints cost memory but are not claimed here
					continue
				default:
					continue
				}
				nMakes++
				for _, sz := range sizes {
					root, kind := wireCount(sz, 0)
					if root == nil {
						continue
					}
					nWire++
					// an upper bound on the read value (or a conversion of it) dominates the allocation
					isRoot := func(v ssa.Value) bool {
						r, _ := wireCount(v, 0)
						if r != root {
							return false
						}
						// an upper bound tested on a SIGNED conversion of a 64-bit count bounds nothing:
						// 2^63 and above convert to a negative number, pass `n > MAX` and make() panics
						if kind != "u32" {
							if bt, isB := v.Type().Underlying().(*types.Basic); isB && bt.Info()&types.IsUnsigned == 0 {
								return false
							}
						}
						return true
					}
					var isBound func(v ssa.Value) bool
					isBound = func(v ssa.Value) bool {
						v = ir.Strip(v)
						if _, ok := v.(*ssa.Const); ok {
							return true
						}
						// arithmetic over bounds (source.Len()/2, MAX*2, …)
						if bo, ok := v.(*ssa.BinOp); ok {
							switch bo.Op {
							case token.QUO, token.MUL, token.ADD, token.SUB:
								return isBound(bo.X) && isBound(bo.Y)
							}
						}
						// bounded by what is left in the input
						if cl, ok := v.(*ssa.Call); ok {
							if o := ir.CalleeObj(cl); o != nil && (o.Name() == "Len" || o.Name() == "Size") {
								return true
							}
							if bi, isB := cl.Common().Value.(*ssa.Builtin); isB && bi.Name() == "len" {
								return true
							}
						}
						if g, ok := v.(*ssa.UnOp); ok {
							if _, isG := g.X.(*ssa.Global); isG {
								return true
							}
						}
						return false
					}
					g := relGuard("wire count <= bound", isRoot, isBound, token.LEQ)
					pass := ir.PassEdges(fn, g.G)
					bounded := false
					if len(pass) > 0 {
						r := ir.NewReach(fn).CutEdges(pass).Run(nil)
						bounded = !r.Instr(in)
					}
					c.Touch(fn)
					c.Decide(bounded, rule, fn, "allocation sized by a "+kind+" read from the wire is preceded by an upper bound", c.P.Rel(pos), "size "+sz.Name())
				}
			}
		}
	}
	return
}

// checkWireSliceBounds: a re-slice x[:h] whose bound h is a 64-bit count read from the
// wire must be preceded by an upper bound on that count.  (A u64 count that was
// converted to int for a loop may have wrapped negative, so 'the loop appended h
// elements' is not an argument.)
func checkWireSliceBounds(c *core.Ctx, rule string, fns []*ssa.Function) int {
	n := 0
	for _, fn := range fns {
		for _, b := range fn.Blocks {
			for _, in := range b.Instrs {
				sl, ok := in.(*ssa.Slice)
				if !ok || sl.High == nil {
					continue
				}
				root, kind := wireCount(sl.High, 0)
				if root == nil || (kind != "u64" && kind != "varuint" && kind != "u32") {
					continue
				}
				if _, isArr := sl.X.Type().Underlying().(*types.Pointer); isArr {
					continue // slicing a fixed array: bounds are checked against a constant length by the compiler only for constants
				}
				n++
				isRoot := func(v ssa.Value) bool { r, _ := wireCount(v, 0); return r == root }
				var isBound func(v ssa.Value) bool
				isBound = func(v ssa.Value) bool {
					v = ir.Strip(v)
					if bo, ok := v.(*ssa.BinOp); ok {
						switch bo.Op {
						case token.QUO, token.MUL, token.ADD, token.SUB:
							return isBound(bo.X) && isBound(bo.Y)
						}
					}
					if _, ok := v.(*ssa.Const); ok {
						return true
					}
					if cl, ok := v.(*ssa.Call); ok {
						if o := ir.CalleeObj(cl); o != nil && (o.Name() == "Len" || o.Name() == "Size") {
							return true
						}
						if bi, isB := cl.Common().Value.(*ssa.Builtin); isB && (bi.Name() == "len" || bi.Name() == "cap") {
							return true
						}
					}
					return false
				}
				// the bound must be something that limits the list actually held: the bytes left or len/cap — a bare constant clamp is not enough
				g := relGuard("wire count <= remaining input / len", isRoot, func(v ssa.Value) bool {
					if _, isK := ir.Strip(v).(*ssa.Const); isK {
						return false
					}
					return isBound(v)
				}, token.LEQ)
				pass := ir.PassEdges(fn, g.G)
				bounded := false
				if len(pass) > 0 {
					r := ir.NewReach(fn).CutEdges(pass).Run(nil)
					bounded = !r.Instr(in)
				}
				// or: a loop counted in the SAME unsigned width (no signed conversion that could wrap) ran to
				// its end before the re-slice, so one element per unit of the count was decoded
				how := "guard"
				if !bounded {
					for _, cd := range ir.Conds(fn) {
						cmp, isB := cd.V.(*ssa.BinOp)
						// the count-down form: remaining := count; remaining != 0 (or > 0); remaining-- — in the
						// count's own unsigned width it runs exactly `count` times
						if isB && (cmp.Op == token.NEQ || cmp.Op == token.GTR) {
							if dphi, isPhi := cmp.X.(*ssa.Phi); isPhi && len(dphi.Edges) == 2 {
								if k0, isK := ir.ConstInt(cmp.Y); isK && k0 == 0 {
									fromRoot, down := false, false
									for _, e := range dphi.Edges {
										if e == root {
											fromRoot = true
										}
										if bo, isBo := e.(*ssa.BinOp); isBo && bo.Op == token.SUB && bo.X == ssa.Value(dphi) {
											if k, isK1 := ir.ConstInt(bo.Y); isK1 && k == 1 {
												down = true
											}
										}
									}
									if bt, isBasic := dphi.Type().Underlying().(*types.Basic); fromRoot && down && isBasic && bt.Info()&types.IsUnsigned != 0 {
										exit := cd.If.Block().Succs[cd.FalseIdx()]
										if exit == sl.Block() || exit.Dominates(sl.Block()) {
											bounded = true
											how = "unsigned count-down loop completed"
										}
									}
								}
							}
						}
						// i < count, or i != count for a counter that starts at 0 and steps by one
						if !isB || (cmp.Op != token.LSS && cmp.Op != token.NEQ) {
							continue
						}
						cphi, isPhi := cmp.X.(*ssa.Phi)
						if !isPhi {
							continue
						}
						if cmp.Op == token.NEQ {
							zero, unit := false, false
							for _, e := range cphi.Edges {
								if k, isK := ir.ConstInt(e); isK && k == 0 {
									zero = true
								}
								if bo, isBo := e.(*ssa.BinOp); isBo && bo.Op == token.ADD && bo.X == ssa.Value(cphi) {
									if k, isK := ir.ConstInt(bo.Y); isK && k == 1 {
										unit = true
									}
								}
							}
							if !zero || !unit {
								continue
							}
						}
						if kind == "u32" {
							// a 32-bit count converted to int cannot wrap (64-bit int): `i < int(count)` counts `count` elements
							y := cmp.Y
							if cv, isCv := y.(*ssa.Convert); isCv {
								y = cv.X
							}
							if y != root {
								continue // the loop ran to another bound (a clamped copy): fewer elements than `count` may be held
							}
							// the re-slice bound is the count itself or the count clamped DOWN to a constant
							okHigh := true
							hv := sl.High
							if cv, isCv := hv.(*ssa.Convert); isCv {
								hv = cv.X
							}
							if hv != root {
								phi, isPhi := hv.(*ssa.Phi)
								if !isPhi {
									continue
								}
								for pi, e := range phi.Edges {
									if e == root {
										continue
									}
									k, isK := ir.ConstInt(e)
									if !isK {
										okHigh = false
										break
									}
									// the constant is taken only where count > K (a minimum, not a maximum)
									gk := relGuard("count > K", func(v ssa.Value) bool { return v == root }, func(v ssa.Value) bool { kk, ok := ir.ConstInt(v); return ok && kk == k }, token.GTR)
									pk := ir.PassEdges(fn, gk.G)
									pred := phi.Block().Preds[pi]
									rr := ir.NewReach(fn).CutEdges(pk).Run(nil)
									if len(pk) == 0 || rr.EdgeReachable(ir.Edge{From: pred, Idx: indexOfSucc(pred, phi.Block())}) {
										okHigh = false
									}
								}
							}
							if !okHigh {
								continue
							}
						} else {
							if cmp.Y != root {
								continue // a converted bound (int(count)) may have wrapped
							}
							if bt, isBasic := cmp.X.Type().Underlying().(*types.Basic); !isBasic || bt.Info()&types.IsUnsigned == 0 {
								continue
							}
						}
						exit := cd.If.Block().Succs[1]
						if exit == sl.Block() || exit.Dominates(sl.Block()) {
							bounded = true
							how = "unsigned counted loop completed"
						}
					}
				}
				c.Touch(fn)
				c.Decide(bounded, rule, fn, "a list is re-sliced to a "+kind+" count from the wire only after that count was bounded by the data actually present", c.P.Rel(sl.Pos()), how)
			}
		}
	}
	return n
}

// decoderFuncs: Deserialization / Deserialize methods (and package-level Deserialize* / *FromRawBytes helpers) of the selected packages.
func decoderFuncs(c *core.Ctx, sel func(pkgRel string) bool) []*ssa.Function {
	var out []*ssa.Function
	for _, pk := range c.P.Mod {
		if pk.SSA == nil || pk.Types == nil {
			continue
		}
		rel := strings.TrimPrefix(pk.Types.Path(), ir.Mod+"/")
		if !sel(rel) {
			continue
		}
		for _, f := range allFuncs(pk.SSA) {
			n := f.Name()
			root := f
			for root.Parent() != nil {
				root = root.Parent()
			}
			rn := root.Name()
			if strings.HasPrefix(rn, "Deserializ") || strings.HasPrefix(rn, "deserializ") || strings.HasSuffix(rn, "FromRawBytes") || strings.HasPrefix(rn, "Decode") || strings.HasPrefix(rn, "Read") || strings.HasPrefix(rn, "read") {
				out = append(out, f)
			}
			_ = n
		}
	}
	return out
}

// sortComparators: for every sort.Slice / sort.SliceStable call in fns check that the
// comparator orders the slice being sorted (its index expressions refer to that very
// slice) with a strict comparison.
func checkSortComparators(c *core.Ctx, rule string, fns []*ssa.Function) int {
	n := 0
	for _, fn := range fns {
		for _, ci := range ir.Calls(fn, func(ci ssa.CallInstruction) bool { return ir.IsPkgFunc(ci, "sort", "Slice", "SliceStable") }) {
			n++
			a := ci.Common().Args
			sorted := a[0]
			if mi, ok := sorted.(*ssa.MakeInterface); ok {
				sorted = mi.X
			}
			mc, ok := a[1].(*ssa.MakeClosure)
			if !ok {
				c.Broken(rule, fn, "comparator closure of sort call", c.P.Rel(ci.Pos()), "not a closure literal")
				continue
			}
			less := mc.Fn.(*ssa.Function)
			// value or cell the sorted slice comes from
			var cell ssa.Value
			if ld, isLd := sorted.(*ssa.UnOp); isLd {
				cell = ld.X
			}
			okSame, okStrict := true, false
			var detail []string
			for _, b := range less.Blocks {
				for _, in := range b.Instrs {
					switch x := in.(type) {
					case *ssa.IndexAddr:
						// base: load of a free variable cell, or a free variable holding the slice
						var fv *ssa.FreeVar
						base := x.X
						if ld, isLd := base.(*ssa.UnOp); isLd {
							base = ld.X
						}
						fv, _ = base.(*ssa.FreeVar)
						if fv == nil {
							continue
						}
						idx := -1
						for i, f := range less.FreeVars {
							if f == fv {
								idx = i
							}
						}
						if idx < 0 || idx >= len(mc.Bindings) {
							continue
						}
						bind := mc.Bindings[idx]
						if bind != sorted && bind != cell {
							okSame = false
							detail = append(detail, "comparator indexes "+fv.Name()+", which is not the slice being sorted")
						}
					case *ssa.BinOp:
						if x.Op == token.LSS || x.Op == token.GTR {
							okStrict = true
						}
					case *ssa.Call:
						// bytes.Compare(...) < 0 etc. are BinOps on the call result; strings.Compare likewise
					}
				}
			}
			c.Touch(fn)
			// the shared auditor (also used by the map-order engine) has the final word on strictness
			if bad, why := eng.SortComparatorBad(ci); bad {
				okSame, okStrict = false, false
				detail = append(detail, why)
			} else {
				okStrict = true
			}
			c.Decide(okSame && okStrict, rule, fn, "the sort comparator is a strict order on the elements of the slice being sorted", c.P.Rel(ci.Pos()), strings.Join(detail, "; "))
		}
	}
	return n
}

// mapLoopsOrderInsensitive: every range over a map in fns has order-insensitive effects (or is collect→sort).
func checkMapEmission(c *core.Ctx, rule string, fns []*ssa.Function) int {
	n := 0
	for _, fn := range fns {
		for _, lp := range eng.FindMapLoops(fn, nil) {
			n++
			v, why := eng.ClassifyMapLoop(fn, lp)
			c.Touch(fn)
			pos := c.P.Rel(lp.Range.Pos())
			switch v {
			case eng.OrderInsensitive:
				c.Hold(rule, fn, "range over a map does not leak iteration order into the encoding", pos, why)
			case eng.OrderSensitive:
				c.Violate(rule, fn, "range over a map does not leak iteration order into the encoding", pos, why)
			default:
				c.Broken(rule, fn, "range over a map does not leak iteration order into the encoding", pos, "undecided: "+why)
			}
		}
	}
	return n
}

func structOf(t types.Type) *types.Struct {
	if p, ok := t.Underlying().(*types.Pointer); ok {
		t = p.Elem()
	}
	st, _ := t.Underlying().(*types.Struct)
	return st
}

func namedOf(t types.Type) *types.Named {
	if p, ok := t.(*types.Pointer); ok {
		t = p.Elem()
	}
	n, _ := t.(*types.Named)
	return n
}
