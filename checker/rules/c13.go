package rules

import (
	"go/token"
	"go/types"

	"golang.org/x/tools/go/ssa"

	"polyverif/core"
	"polyverif/eng"
	"polyverif/ir"
)

// C13 — the ledger only grows by valid successors.
// C14 — blocks need a signature quorum of the validators in force.

func init() {
	core.Register(&core.Check{
		ID: "C13", Level: "other", Title: "The ledger only grows by valid successors",
		Explain: "Guard dominance on LedgerStoreImp: in AddBlock / SubmitBlock / ExecuteBlock the calls of saveBlock / submitBlock / executeBlock are dominated by the pass edge of block.Header.Height == GetCurrentBlockHeight()+1 (so heights <= current return without reaching any store call: idempotence) and (first two) by verifyHeader err==nil; in verifyHeader every non-genesis success return is dominated by prevHeader != nil with prevHeader = GetHeaderByHash(header.PrevBlockHash), by prev.Height+1 == header.Height and by the fail edge of prev.Timestamp >= header.Timestamp; in submitBlock the first batch/commit operations are dominated by Height==0 ∨ blockRoot == Header.BlockRoot with blockRoot = GetBlockRootWithPreBlockHashes(Height, [PrevBlockHash]); in saveBlock submitBlock is dominated by result.MerkleRoot == stateMerkleRoot. Block-store key pairing: SaveBlockHash/GetBlockHash, SaveBlock(header)/GetHeader, SaveTransaction/GetTransaction use the same key builders. NOT decided: that GetHeaderByHash may return a cached, not yet committed header of another fork (assumption).",
		Run:     runC13,
	})
	core.Register(&core.Check{
		ID: "C14", Level: "other", Title: "Blocks need a signature quorum of the validators in force",
		Explain: "In LedgerStoreImp.verifyHeader (vbft arm): the required count m is extracted as an arithmetic tree over N=len(vbftPeerInfo) and proved ≡ N−⌊(N−1)/3⌋ for all N≥1 on the non-legacy edge and ≡ N−⌊6N/7⌋ on the legacy edge (quasi-linear normal forms), the legacy edge being selected exactly by NetworkId != MAIN_NET ∨ currentHeaderHeight <= 20000000 (decision table under both configuration facts); every success return of the vbft arm is dominated by the fail edge of len(Bookkeepers) < m, and VerifyMultiSignature(header.Hash(), header.Bookkeepers, m, header.SigData) err==nil with exactly those arguments; each iteration of the loop over header.Bookkeepers passes membership in vbftPeerInfo and the not-yet-used test and records the key as used (distinct-member idiom); every return whose first result is not the unchanged parameter map is dominated by multi-signature success and NewChainConfig != nil; the fields vbftPeerInfoheader/-block are written only from verifyHeader's result (AddHeader/SubmitBlock/AddBlock) and at initialisation. VerifyMultiSignature: len(sigs) >= m guard, every accepted signature sets a previously unset mask slot (distinct keys), valid flag checked per signature. Non-vbft arm: NextBookkeeper address equality and N−⌊(N−1)/3⌋. NOT decided: cryptographic validity (ontology-crypto).",
		Run:     runC14,
	})
}

// cmpGuard builds a guard from a comparison matcher: match(b) returns
// (matched, passWhenCondTrue).
func cmpGuard(name string, match func(b *ssa.BinOp) (bool, bool)) eng.NamedGuard {
	return eng.NamedGuard{Name: name, G: func(cd ir.Cond) (bool, bool) {
		b, ok := cd.V.(*ssa.BinOp)
		if !ok {
			return false, false
		}
		return match(b)
	}}
}

func isFieldNamed(v ssa.Value, name string) bool {
	_, f, ok := fieldLoad(v)
	return ok && f == name
}

func isCallTo(v ssa.Value, o *types.Func) bool {
	cl, _ := ir.CallOf(v)
	return cl != nil && ir.CalleeIs(cl, o)
}

// nextHeightGuard: block.Header.Height == GetCurrentBlockHeight()+1
func nextHeightGuard(gcbh *types.Func) eng.NamedGuard {
	isNext := func(v ssa.Value) bool {
		b, ok := ir.Strip(v).(*ssa.BinOp)
		if !ok || b.Op != token.ADD {
			return false
		}
		k, okk := ir.ConstInt(b.Y)
		return okk && k == 1 && isCallTo(b.X, gcbh)
	}
	return cmpGuard("Height == GetCurrentBlockHeight()+1", func(b *ssa.BinOp) (bool, bool) {
		if b.Op != token.EQL && b.Op != token.NEQ {
			return false, false
		}
		if (isFieldNamed(b.X, "Height") && isNext(b.Y)) || (isFieldNamed(b.Y, "Height") && isNext(b.X)) {
			return true, b.Op == token.EQL
		}
		return false, false
	})
}

func runC13(c *core.Ctx) {
	checkCommitRepointsHeightIndex(c, "C13.height-index-follows-commit")
	// the tip (block store) becomes durable before the state that belongs to it: otherwise a fault between the
	// commits leaves the accumulator one leaf ahead of the tip and the next block-root check compares against it
	checkCommitOrder(c, "C13.tip-durable-first")
	checkHeightUnderLock(c)
	gcbh := eng.Obj(c, pkLedger, "LedgerStoreImp.GetCurrentBlockHeight")
	vh := eng.Obj(c, pkLedger, "LedgerStoreImp.verifyHeader")
	if gcbh == nil || vh == nil {
		return
	}
	hg := nextHeightGuard(gcbh)
	for _, p := range [][2]string{{"AddBlock", "saveBlock"}, {"SubmitBlock", "submitBlock"}, {"ExecuteBlock", "executeBlock"}} {
		fn := c.Fn(pkLedger, "LedgerStoreImp."+p[0])
		callee := eng.Obj(c, pkLedger, "LedgerStoreImp."+p[1])
		if fn == nil || callee == nil {
			continue
		}
		calls := ir.CallsTo(fn, callee)
		c.Floor(p[1]+" calls in "+p[0], len(calls), 1)
		// the equality may be one test or the conjunction of the two one-sided tests (`h > n || h < n` refuses)
		isNext := func(v ssa.Value) bool {
			b, ok := ir.Strip(v).(*ssa.BinOp)
			if !ok || b.Op != token.ADD {
				return false
			}
			k, okk := ir.ConstInt(b.Y)
			return okk && k == 1 && isCallTo(b.X, gcbh)
		}
		isHeight := func(v ssa.Value) bool { return isFieldNamed(v, "Height") }
		if len(ir.PassEdges(fn, hg.G)) > 0 || len(calls) == 0 {
			eng.Dominates(c, "C13.next-height≺store", fn, hg, ir.CallSinks(calls, p[1]), p[1], nil)
		} else {
			dominatesEq(c, "C13.next-height≺store", fn, hg.Name, isHeight, isNext, ir.CallSinks(calls, p[1]), p[1])
		}
		if p[0] != "ExecuteBlock" {
			eng.Dominates(c, "C13.verifyHeader≺store", fn, eng.ErrNilOf("verifyHeader", vh), ir.CallSinks(calls, p[1]), p[1], nil)
			// the header verified is the block's header
			for _, v := range ir.CallsTo(fn, vh) {
				c.Decide(isFieldNamed(v.Common().Args[1], "Header"), "C13.verifyHeader≺store", fn, "verifyHeader(block.Header, …)", c.P.Rel(v.Pos()), "")
			}
		}
	}
	// saveBlock: same height guard in its own words: blockHeight > 0 && blockHeight != cur+1 -> return nil (no store)
	if fn := c.Fn(pkLedger, "LedgerStoreImp.saveBlock"); fn != nil {
		sb := eng.Obj(c, pkLedger, "LedgerStoreImp.submitBlock")
		eb := eng.Obj(c, pkLedger, "LedgerStoreImp.executeBlock")
		calls := ir.CallsTo(fn, sb)
		g := cmpGuard("result.MerkleRoot == stateMerkleRoot", func(b *ssa.BinOp) (bool, bool) {
			if b.Op != token.EQL && b.Op != token.NEQ {
				return false, false
			}
			isParam := func(v ssa.Value) bool {
				p, ok := ir.Strip(v).(*ssa.Parameter)
				return ok && p.Name() == "stateMerkleRoot"
			}
			if (isFieldNamed(b.X, "MerkleRoot") && isParam(b.Y)) || (isFieldNamed(b.Y, "MerkleRoot") && isParam(b.X)) {
				return true, b.Op == token.EQL
			}
			return false, false
		})
		eng.Dominates(c, "C13.state-root≺submit", fn, g, ir.CallSinks(calls, "submitBlock"), "submitBlock", nil)
		eng.Dominates(c, "C13.state-root≺submit", fn, eng.ErrNilOf("executeBlock", eb), ir.CallSinks(calls, "submitBlock"), "submitBlock", nil)
	}
	// verifyHeader parent / height / timestamp
	if fn := c.Fn(pkLedger, "LedgerStoreImp.verifyHeader"); fn != nil {
		ghbh := eng.Obj(c, pkLedger, "LedgerStoreImp.GetHeaderByHash")
		// non-genesis fact: cut the `header.Height == 0` true edge
		var cuts []ir.Edge
		for _, cd := range ir.Conds(fn) {
			if b, ok := cd.V.(*ssa.BinOp); ok && b.Op == token.EQL && isFieldNamed(b.X, "Height") {
				if k, okk := ir.ConstInt(b.Y); okk && k == 0 {
					cuts = append(cuts, ir.Edge{From: cd.If.Block(), Idx: cd.TrueIdx()})
				}
			}
		}
		c.Floor("genesis test in verifyHeader", len(cuts), 1)
		opt := &eng.Opt{Cuts: cuts, Fact: "header.Height != 0"}
		succ := ir.SuccessSinks(fn)
		eng.Dominates(c, "C13.parent", fn, eng.NamedGuard{Name: "GetHeaderByHash(header.PrevBlockHash) != nil", G: ir.NotNil(func(cl *ssa.Call) bool {
			return ir.CalleeIs(cl, ghbh) && isFieldNamed(cl.Common().Args[1], "PrevBlockHash")
		})}, succ, "success return", opt)
		fromPrev := func(v ssa.Value) bool {
			base, _, ok := fieldLoad(v)
			if !ok {
				return false
			}
			return isCallTo(base, ghbh) || func() bool {
				p, ok := base.(*ssa.Phi)
				return ok && len(eng.PhiLeaves(nil, p)) > 0 && anyCall(eng.PhiLeaves(nil, p), ghbh)
			}()
		}
		fromParam := func(v ssa.Value) bool {
			base, _, ok := fieldLoad(v)
			if !ok {
				return false
			}
			p, ok := ir.Strip(base).(*ssa.Parameter)
			return ok && p.Name() == "header"
		}
		eng.Dominates(c, "C13.height+1", fn, cmpGuard("prev.Height+1 == header.Height", func(b *ssa.BinOp) (bool, bool) {
			if b.Op != token.EQL && b.Op != token.NEQ {
				return false, false
			}
			plus1 := func(v ssa.Value) bool {
				a, ok := ir.Strip(v).(*ssa.BinOp)
				if !ok || a.Op != token.ADD {
					return false
				}
				k, okk := ir.ConstInt(a.Y)
				return okk && k == 1 && isFieldNamed(a.X, "Height") && fromPrev(a.X)
			}
			if (plus1(b.X) && isFieldNamed(b.Y, "Height") && fromParam(b.Y)) || (plus1(b.Y) && isFieldNamed(b.X, "Height") && fromParam(b.X)) {
				return true, b.Op == token.EQL
			}
			return false, false
		}), succ, "success return", opt)
		eng.Dominates(c, "C13.timestamp", fn, cmpGuard("prev.Timestamp < header.Timestamp", func(b *ssa.BinOp) (bool, bool) {
			if !isFieldNamed(b.X, "Timestamp") || !isFieldNamed(b.Y, "Timestamp") {
				return false, false
			}
			pl, hl := fromPrev(b.X) && fromParam(b.Y), fromPrev(b.Y) && fromParam(b.X)
			switch {
			case pl && b.Op == token.GEQ: // prev >= hdr : fail
				return true, false
			case pl && b.Op == token.LSS:
				return true, true
			case hl && b.Op == token.LEQ: // hdr <= prev : fail
				return true, false
			case hl && b.Op == token.GTR:
				return true, true
			}
			return false, false
		}), succ, "success return", opt)
	}
	// submitBlock block root (shared with C08: rules/c13d.go)
	checkSubmitBlockRoot(c, "C13.block-root≺store", true)

	// block store key pairing
	checkBlockStorePairs(c)
}

func anyCall(vs []ssa.Value, o *types.Func) bool {
	for _, v := range vs {
		if isCallTo(v, o) {
			return true
		}
	}
	return false
}

// checkBlockStorePairs: writer and reader of each block-store record kind
// build the key with the same helper (callee identity).
func checkBlockStorePairs(c *core.Ctx) {
	pairs := [][3]string{
		{"BlockStore.SaveBlockHash", "BlockStore.GetBlockHash", "getBlockHashKey"},
		{"BlockStore.SaveHeader", "BlockStore.loadHeaderWithTx", "getHeaderKey"},
		{"BlockStore.putTransaction", "BlockStore.loadTransaction", "getTransactionKey"},
		{"BlockStore.SaveCurrentBlock", "BlockStore.GetCurrentBlock", "getCurrentBlockKey"},
	}
	for _, p := range pairs {
		w := c.Fn(pkLedger, p[0])
		r := c.Fn(pkLedger, p[1])
		if w == nil || r == nil {
			continue
		}
		uses := func(fn *ssa.Function) bool {
			for _, ci := range ir.Calls(fn, nil) {
				if o := ir.CalleeObj(ci); o != nil && o.Name() == p[2] {
					return true
				}
			}
			return false
		}
		c.Decide(uses(w) && uses(r), "C13.lookup-key-pairing", w, p[0]+" and "+p[1]+" both key through "+p[2], c.P.Rel(w.Pos()), "")
	}
}

// ---------------------------------------------------------------------------

func runC14(c *core.Ctx) {
	checkPeerTablesFromAnnouncedSet(c)
	fn := c.Fn(pkLedger, "LedgerStoreImp.verifyHeader")
	vms := eng.Obj(c, pkSig, "VerifyMultiSignature")
	hash := eng.Obj(c, pkTypes, "Header.Hash")
	vb := eng.Obj(c, "consensus/vbft/config", "VbftBlock")
	pid := eng.Obj(c, "consensus/vbft/config", "PubkeyID")
	if fn == nil || vms == nil || hash == nil || vb == nil || pid == nil {
		return
	}
	isPeerMap := func(v ssa.Value) bool { p, ok := ir.Strip(v).(*ssa.Parameter); return ok && p.Name() == "vbftPeerInfo" }
	isBookkeepers := func(v ssa.Value) bool { return isFieldNamed(v, "Bookkeepers") }
	isN := eng.IsLenOf(isPeerMap)

	// the threshold test len(header.Bookkeepers) < m
	var mVal ssa.Value
	var thrIf *ssa.If
	lenBk := eng.IsLenOf(isBookkeepers)
	for _, cd := range ir.Conds(fn) {
		b, ok := cd.V.(*ssa.BinOp)
		if ok && b.Op == token.LSS && lenBk(b.X) {
			if _, isPhi := b.Y.(*ssa.Phi); isPhi {
				mVal, thrIf = b.Y, cd.If
			}
			// m computed by a same-package helper quorum(N, legacy)
			if cl, isCall := b.Y.(*ssa.Call); isCall {
				if h := cl.Common().StaticCallee(); h != nil && h.Pkg == fn.Pkg && len(h.Blocks) > 0 {
					mVal, thrIf = b.Y, cd.If
				}
			}
		}
	}
	if mVal == nil {
		c.Broken("C14.threshold", fn, "len(Bookkeepers) < m test", c.P.Rel(fn.Pos()), "not found (vbft arm)")
		return
	}
	mainNet, _ := c.P.Const("common/config", "NETWORK_ID_MAIN_NET")
	mn, _ := ir.ConstInt(ssa.NewConst(mainNet, types.Typ[types.Int]))
	// needFix := NETWORK_ID_MAIN_NET != NetworkId || GetCurrentHeaderHeight() <= 20000000 ; if needFix { m = legacy }
	gchh := eng.Obj(c, pkLedger, "LedgerStoreImp.GetCurrentHeaderHeight")
	var selIf *ssa.If
	var selCond ssa.Value
	mFn := fn   // the function in which the alternatives of m are chosen
	isNm := isN // recognises N inside mFn
	if mPhi, isPhi := mVal.(*ssa.Phi); isPhi {
		for _, pb := range mPhi.Block().Preds {
			for _, cand := range append([]*ssa.BasicBlock{pb}, pb.Preds...) {
				if ifi, ok := cand.Instrs[len(cand.Instrs)-1].(*ssa.If); ok && selIf == nil {
					selIf = ifi
				}
			}
		}
		if selIf != nil {
			selCond = selIf.Cond
		}
	} else if cl, isCall := mVal.(*ssa.Call); isCall {
		h := cl.Common().StaticCallee()
		mFn = h
		var nParam *ssa.Parameter
		for i, a := range cl.Common().Args {
			if i >= len(h.Params) {
				break
			}
			if isN(a) {
				nParam = h.Params[i]
			}
		}
		isNm = func(v ssa.Value) bool { return nParam != nil && v == ssa.Value(nParam) }
		for _, cd := range ir.Conds(h) {
			if p, isP := cd.V.(*ssa.Parameter); isP && selIf == nil && !cd.Neg {
				for i, hp := range h.Params {
					if hp == p && i < len(cl.Common().Args) {
						selIf, selCond = cd.If, cl.Common().Args[i]
					}
				}
			}
		}
	}
	if selIf == nil || selCond == nil {
		c.Broken("C14.legacy-gate", fn, "if needFix", c.P.Rel(fn.Pos()), "selector of m not found")
		return
	}
	tree := eng.BoolTree(selCond)
	classify := func(a ssa.Value) string {
		b, ok := a.(*ssa.BinOp)
		if !ok {
			return "?"
		}
		isNet := func(v ssa.Value) bool { return isFieldNamed(v, "NetworkId") }
		if b.Op == token.NEQ || b.Op == token.EQL {
			var k int64 = -1
			if isNet(b.X) {
				k, _ = ir.ConstInt(b.Y)
			} else if isNet(b.Y) {
				k, _ = ir.ConstInt(b.X)
			}
			if k == mn && b.Op == token.NEQ {
				return "notMain"
			}
			if k == mn && b.Op == token.EQL {
				return "isMain"
			}
		}
		if b.Op == token.LEQ && isCallTo(b.X, gchh) {
			if k, okk := ir.ConstInt(b.Y); okk && k == 20000000 {
				return "heightLE"
			}
			return "heightLE?"
		}
		return "?"
	}
	okTable := true
	detail := tree.String()
	for _, a := range tree.Atoms() {
		if cl := classify(a); cl == "?" || cl == "heightLE?" {
			okTable = false
			detail += " — unrecognised atom " + a.String()
		}
	}
	if okTable {
		for _, main := range []bool{true, false} {
			for _, le := range []bool{true, false} {
				got := tree.Eval(func(a ssa.Value) bool {
					switch classify(a) {
					case "notMain":
						return !main
					case "isMain":
						return main
					case "heightLE":
						return le
					}
					return false
				})
				if got != (!main || le) {
					okTable = false
					detail += sprintf(" — differs at main=%v height<=20000000=%v", main, le)
				}
			}
		}
	}
	c.Decide(okTable, "C14.legacy-gate", fn, "legacy rule ⇔ NetworkId != MAIN_NET ∨ currentHeaderHeight <= 20000000", c.P.Rel(selIf.Pos()), detail)
	type cfg struct {
		name   string
		cuts   []ir.Edge
		want   *eng.Expr
		wantNm string
	}
	cfgs := []cfg{
		{"legacy rule off", []ir.Edge{{From: selIf.Block(), Idx: 0}}, eng.FormulaNminusF(), "N-⌊(N-1)/3⌋"},
		{"legacy rule on", []ir.Edge{{From: selIf.Block(), Idx: 1}}, eng.FormulaLegacy(), "N-⌊6N/7⌋"},
	}
	for _, cf := range cfgs {
		r := ir.NewReach(mFn).CutEdges(cf.cuts).Run(nil)
		var leaves []ssa.Value
		if mFn == fn {
			leaves = eng.PhiLeaves(r, mVal)
		} else {
			// the helper's return values that are reachable under this configuration
			for _, b := range mFn.Blocks {
				if len(b.Instrs) == 0 {
					continue
				}
				if ret, isRet := b.Instrs[len(b.Instrs)-1].(*ssa.Return); isRet && len(ret.Results) == 1 && r.Instr(ret) {
					leaves = append(leaves, eng.PhiLeaves(r, ret.Results[0])...)
				}
			}
		}
		if len(leaves) != 1 {
			c.Violate("C14.threshold", fn, "m under ["+cf.name+"] ≡ "+cf.wantNm, c.P.Rel(thrIf.Pos()), sprintf("%d candidate definitions of m reach the test under this configuration", len(leaves)))
			continue
		}
		e, err := eng.ExtractExpr(leaves[0], isNm)
		if err != nil {
			// an arithmetic tree over ANOTHER count (the listed signer keys, a constant …) is a decided
			// violation: the quorum must be taken over the validators in force
			var other ssa.Value
			if _, err2 := eng.ExtractExpr(leaves[0], func(v ssa.Value) bool {
				if isNm(v) {
					return true
				}
				if cl, isCl := ir.Strip(v).(*ssa.Call); isCl {
					if bi, isB := cl.Common().Value.(*ssa.Builtin); isB && bi.Name() == "len" {
						other = cl.Common().Args[0]
						return true
					}
				}
				return false
			}); err2 == nil && other != nil {
				c.Violate("C14.threshold", fn, "m under ["+cf.name+"] ≡ "+cf.wantNm, c.P.Rel(thrIf.Pos()),
					"the required count is computed from len("+other.Name()+") "+short(other.String())+", not from the validator set in force: the sender chooses how many signatures are needed")
				continue
			}
			c.Broken("C14.threshold", fn, "m under ["+cf.name+"]", c.P.Rel(thrIf.Pos()), err.Error())
			continue
		}
		ok, why := eng.EqualForAll(e, cf.want, 1)
		c.Decide(ok, "C14.threshold", fn, "m under ["+cf.name+"] ≡ "+cf.wantNm, c.P.Rel(thrIf.Pos()), why)
	}

	// vbft arm success returns: those dominated by the consensusType=="vbft" true edge — take all success returns
	// reachable after the threshold test
	rr := ir.NewReach(fn).Run(thrIf)
	var vbftSucc []ir.Sink
	for _, s := range ir.SuccessSinks(fn) {
		if rr.SinkReachable(s) {
			vbftSucc = append(vbftSucc, s)
		}
	}
	c.Floor("success returns in the vbft arm", len(vbftSucc), 1)
	thr := eng.NamedGuard{Name: "len(Bookkeepers) >= m", G: func(cd ir.Cond) (bool, bool) {
		if cd.If == thrIf {
			return true, false != false || !true == false // pass on the false edge of `<`
		}
		return false, false
	}}
	thr.G = func(cd ir.Cond) (bool, bool) {
		if cd.If == thrIf {
			return true, false
		}
		return false, false
	}
	eng.Dominates(c, "C14.count≺accept", fn, thr, vbftSucc, "vbft success return", nil)
	msPred := func(cl *ssa.Call) bool {
		if !ir.CalleeIs(cl, vms) {
			return false
		}
		a := cl.Common().Args
		// data = hash[:] of header.Hash(); keys = header.Bookkeepers; m = mVal; sigs = header.SigData
		return sliceOfCall(a[0], hash) && isBookkeepers(a[1]) && a[2] == mVal && isFieldNamed(a[3], "SigData")
	}
	eng.Dominates(c, "C14.multisig≺accept", fn, eng.NamedGuard{Name: "VerifyMultiSignature(header.Hash(), Bookkeepers, m, SigData) err==nil", G: ir.ErrNil(msPred)}, vbftSucc, "vbft success return", nil)

	// distinct-member loop
	loops := eng.FindSliceLoops(fn, isBookkeepers)
	viaHelper := false
	if len(loops) == 0 {
		// the membership / distinctness loop may stand in a same-package helper (shared rule)
		viaHelper = distinctMemberLoop(c, "C14.distinct-members", fn, isBookkeepers, isPeerMap, pid, vbftSucc, "vbft success return")
	}
	if viaHelper {
		// decided by the shared rule
	} else if len(loops) == 0 {
		// a loop over a PART of the list (header.Bookkeepers[:m], [1:], …) checks membership for some keys only,
		// while VerifyMultiSignature is handed the whole list
		partial := eng.FindSliceLoops(fn, func(v ssa.Value) bool {
			sl, ok := v.(*ssa.Slice)
			return ok && isBookkeepers(sl.X)
		})
		if len(partial) > 0 {
			c.Violate("C14.distinct-members", fn, "membership and distinctness are checked for EVERY key handed to VerifyMultiSignature", c.P.Rel(partial[0].Cond.Pos()),
				"the membership loop ranges over a sub-slice of header.Bookkeepers; keys outside it are accepted as signers without being validators")
		} else {
			c.Broken("C14.distinct-members", fn, "loop over header.Bookkeepers", c.P.Rel(fn.Pos()), "0 loops")
		}
	} else if len(loops) != 1 {
		c.Broken("C14.distinct-members", fn, "loop over header.Bookkeepers", c.P.Rel(fn.Pos()), sprintf("%d loops", len(loops)))
	} else {
		lp := loops[0]
		member := eng.NamedGuard{Name: "vbftPeerInfo[PubkeyID(bookkeeper)] present", G: func(cd ir.Cond) (bool, bool) {
			ex, ok := cd.V.(*ssa.Extract)
			if !ok || ex.Index != 1 {
				return false, false
			}
			lk, ok := ex.Tuple.(*ssa.Lookup)
			if !ok || !isPeerMap(lk.X) || !isCallTo(lk.Index, pid) {
				return false, false
			}
			return true, true
		}}
		isUsedMap := func(v ssa.Value) bool { _, ok := ir.Strip(v).(*ssa.MakeMap); return ok }
		presence := false
		unused := eng.NamedGuard{Name: "!usedPubKey[pubkey]", G: func(cd ir.Cond) (bool, bool) {
			// presence form: _, seen := used[k]
			if ex, isEx := cd.V.(*ssa.Extract); isEx && ex.Index == 1 {
				if lk, isLk := ex.Tuple.(*ssa.Lookup); isLk && lk.CommaOk && isUsedMap(lk.X) && isCallTo(lk.Index, pid) {
					presence = true
					return true, false
				}
				return false, false
			}
			lk, ok := cd.V.(*ssa.Lookup)
			if !ok || lk.CommaOk || !isUsedMap(lk.X) || !isCallTo(lk.Index, pid) {
				return false, false
			}
			return true, false
		}}
		eng.IterationMustPass(c, "C14.distinct-members", fn, lp.Header, lp.Body, "range header.Bookkeepers", member)
		eng.IterationMustPass(c, "C14.distinct-members", fn, lp.Header, lp.Body, "range header.Bookkeepers", unused)
		eng.IterationMustExec(c, "C14.distinct-members", fn, lp.Header, lp.Body, "range header.Bookkeepers", "usedPubKey[pubkey] = true", func(in ssa.Instruction) bool {
			mu, ok := in.(*ssa.MapUpdate)
			if !ok || !isUsedMap(mu.Map) || !isCallTo(mu.Key, pid) {
				return false
			}
			if presence {
				return true // the test is key presence: any stored value records the key
			}
			k, isk := ir.ConstBool(mu.Value)
			return isk && k
		})
		// the loop precedes the multi-signature call: VerifyMultiSignature not reachable without passing the loop exit
		// (the loop header's exit edge): cut it and require unreachable
		ex := ir.Edge{From: lp.Header, Idx: 1 - indexOfSucc(lp.Header, lp.Body)}
		r := ir.NewReach(fn).CutEdges([]ir.Edge{ex}).Run(nil)
		okOrder := true
		for _, cl := range ir.CallsTo(fn, vms) {
			if msPred(cl.(*ssa.Call)) && r.Instr(cl) {
				okOrder = false
			}
		}
		c.Decide(okOrder, "C14.distinct-members", fn, "membership/distinctness loop completes before VerifyMultiSignature", c.P.Rel(lp.Cond.Pos()), "")
	}

	// validator set changes only on the verified NewChainConfig path
	var changed []ir.Sink
	for _, b := range fn.Blocks {
		ret, ok := b.Instrs[len(b.Instrs)-1].(*ssa.Return)
		if !ok {
			continue
		}
		if isPeerMap(ret.Results[0]) {
			continue
		}
		// one return of a variable that is the map in force on some paths and a new map on others: the
		// sinks are the paths (phi edges) that carry a new map
		if phi, isPhi := ret.Results[0].(*ssa.Phi); isPhi && phi.Block() == b {
			for i, e := range phi.Edges {
				if isPeerMap(e) {
					continue
				}
				pred := b.Preds[i]
				changed = append(changed, ir.Sink{Instr: ret, Via: &ir.Edge{From: pred, Idx: indexOfSucc(pred, b)}, Note: "return of a new peer map"})
			}
			continue
		}
		changed = append(changed, ir.Sink{Instr: ret, Note: "return of a new peer map"})
	}
	c.Floor("returns of a new validator map", len(changed), 1)
	eng.Dominates(c, "C14.set-changes-only-when-verified", fn, eng.NamedGuard{Name: "VerifyMultiSignature err==nil", G: ir.ErrNil(msPred)}, changed, "return of a new peer map", nil)
	eng.Dominates(c, "C14.set-changes-only-when-verified", fn, eng.ErrNilOf("VbftBlock", vb), changed, "return of a new peer map", nil)
	eng.Dominates(c, "C14.set-changes-only-when-verified", fn, cmpGuard("blkInfo.NewChainConfig != nil", func(b *ssa.BinOp) (bool, bool) {
		x, neq, ok := ir.NilCmp(b)
		if !ok || !isFieldNamed(x, "NewChainConfig") {
			return false, false
		}
		return true, neq
	}), changed, "return of a new peer map", nil)
	for _, s := range changed {
		// error result of those returns is nil
		ret := s.Instr.(*ssa.Return)
		c.Decide(ir.IsNilConst(ret.Results[1]), "C14.set-changes-only-when-verified", fn, "a new peer map is returned only with a nil error", c.P.Rel(ret.Pos()), "")
	}
	// field writers
	for _, fld := range []string{"vbftPeerInfoheader", "vbftPeerInfoblock"} {
		checkFieldWriters(c, "C14.who-may-set-validators", pkLedger, "LedgerStoreImp", fld, map[string]bool{
			"(*core/store/ledgerstore.LedgerStoreImp).AddHeader": true, "(*core/store/ledgerstore.LedgerStoreImp).SubmitBlock": true,
			"(*core/store/ledgerstore.LedgerStoreImp).AddBlock": true, "(*core/store/ledgerstore.LedgerStoreImp).InitLedgerStoreWithGenesisBlock": true,
		})
	}
	vhObj := eng.Obj(c, pkLedger, "LedgerStoreImp.verifyHeader")
	lsObj, _ := c.P.Obj(pkLedger, "LedgerStoreImp")
	for _, n := range []string{"AddHeader", "SubmitBlock", "AddBlock"} {
		f := c.Fn(pkLedger, "LedgerStoreImp."+n)
		if f == nil {
			continue
		}
		for _, fld := range []string{"vbftPeerInfoheader", "vbftPeerInfoblock"} {
			for _, st := range fieldStores(f, lsObj.Type(), fld) {
				cl, idx := ir.CallOf(st.(*ssa.Store).Val)
				okv := cl != nil && idx == 0 && ir.CalleeIs(cl, vhObj)
				// and the map passed in is the same field
				okIn := okv && isFieldNamed(cl.Common().Args[2], fld)
				c.Decide(okIn, "C14.who-may-set-validators", f, fld+" = verifyHeader(…, "+fld+") result", c.P.Rel(st.Pos()), "")
			}
		}
	}

	// non-vbft arm
	afb := eng.Obj(c, pkTypes, "AddressFromBookkeepers")
	var otherMs []*ssa.Call
	for _, cl := range ir.CallsTo(fn, vms) {
		if !msPred(cl.(*ssa.Call)) {
			otherMs = append(otherMs, cl.(*ssa.Call))
		}
	}
	if len(otherMs) == 1 && afb != nil {
		cl := otherMs[0]
		e, err := eng.ExtractExpr(cl.Common().Args[2], eng.IsLenOf(isBookkeepers))
		if err != nil {
			c.Broken("C14.threshold", fn, "non-vbft m", c.P.Rel(cl.Pos()), err.Error())
		} else {
			ok, why := eng.EqualForAll(e, eng.FormulaNminusF(), 1)
			c.Decide(ok, "C14.threshold", fn, "non-vbft arm m ≡ N-⌊(N-1)/3⌋ over N=len(Bookkeepers)", c.P.Rel(cl.Pos()), why)
		}
		// success returns not in vbftSucc
		var rest []ir.Sink
		for _, s := range ir.SuccessSinks(fn) {
			in := false
			for _, v := range vbftSucc {
				if v.Instr == s.Instr {
					in = true
				}
			}
			if !in {
				if ret := s.Instr.(*ssa.Return); ret.Block().Index != 0 && !isGenesisReturn(fn, ret) {
					rest = append(rest, s)
				}
			}
		}
		if len(rest) > 0 {
			eng.Dominates(c, "C14.multisig≺accept", fn, eng.NamedGuard{Name: "VerifyMultiSignature (non-vbft) err==nil", G: ir.ErrNil(func(x *ssa.Call) bool { return x == cl })}, rest, "non-vbft success return", nil)
			eng.Dominates(c, "C14.multisig≺accept", fn, cmpGuard("prevHeader.NextBookkeeper == AddressFromBookkeepers(…)", func(b *ssa.BinOp) (bool, bool) {
				if b.Op != token.EQL && b.Op != token.NEQ {
					return false, false
				}
				// the announcement compared is the one of the header ALREADY accepted (looked up by a call),
				// never a field of the header under verification, which its producer chooses
				ofAccepted := func(v ssa.Value) bool {
					base, f, ok := fieldLoad(v)
					if !ok || f != "NextBookkeeper" || rootedIn(base, "header", 8) {
						return false
					}
					cl, _ := ir.CallOf(ir.Strip(base))
					return cl != nil
				}
				if (ofAccepted(b.X) && isCallTo(b.Y, afb)) || (ofAccepted(b.Y) && isCallTo(b.X, afb)) {
					return true, b.Op == token.EQL
				}
				return false, false
			}), rest, "non-vbft success return", nil)
		}
	} else {
		c.Broken("C14.threshold", fn, "non-vbft VerifyMultiSignature call", c.P.Rel(fn.Pos()), sprintf("%d candidates", len(otherMs)))
	}

	checkVerifyMultiSignature(c, "C14.multisig-internals")
}

func isGenesisReturn(fn *ssa.Function, ret *ssa.Return) bool {
	// the `if header.Height == 0 { return vbftPeerInfo, nil }` return: its block's only predecessor is the entry block
	b := ret.Block()
	return len(b.Preds) == 1 && b.Preds[0].Index == 0
}

func indexOfSucc(from, to *ssa.BasicBlock) int {
	for i, s := range from.Succs {
		if s == to {
			return i
		}
	}
	return 0
}

// sliceOfCall: v is x[:] where x holds the result of a call to o.
func sliceOfCall(v ssa.Value, o *types.Func) bool {
	sl, ok := ir.Strip(v).(*ssa.Slice)
	if !ok {
		return false
	}
	al, ok := sl.X.(*ssa.Alloc)
	if !ok {
		return isCallTo(sl.X, o)
	}
	n, okc := 0, false
	for _, ref := range *al.Referrers() {
		if st, ok := ref.(*ssa.Store); ok && st.Addr == al {
			n++
			okc = isCallTo(st.Val, o)
		}
	}
	return n == 1 && okc
}

func checkVerifyMultiSignature(c *core.Ctx, rule string) {
	fn := c.Fn(pkSig, "VerifyMultiSignature")
	if fn == nil {
		return
	}
	succ := ir.SuccessSinks(fn)
	isParam := func(name string) func(ssa.Value) bool {
		return func(v ssa.Value) bool { p, ok := ir.Strip(v).(*ssa.Parameter); return ok && p.Name() == name }
	}
	eng.Dominates(c, rule, fn, cmpGuard("len(sigs) >= m", func(b *ssa.BinOp) (bool, bool) {
		if b.Op == token.LSS && eng.IsLenOf(isParam("sigs"))(b.X) && isParam("m")(b.Y) {
			return true, false
		}
		if b.Op == token.GEQ && eng.IsLenOf(isParam("sigs"))(b.X) && isParam("m")(b.Y) {
			return true, true
		}
		return false, false
	}), succ, "nil return", nil)
	// mask discipline: every store mask[j]=true is dominated (from the inner loop body) by !mask[j] and Verify(keys[j],…)==true
	var maskStores []ssa.Instruction
	var maskAlloc ssa.Value
	// the key search may sit in a small same-package helper handed keys and mask
	hosts, releaseHosts := hostsWithHelpers(fn)
	defer releaseHosts()
	for _, host := range hosts {
		for _, b := range host.Blocks {
			for _, in := range b.Instrs {
				st, ok := in.(*ssa.Store)
				if !ok {
					continue
				}
				ia, ok := st.Addr.(*ssa.IndexAddr)
				if !ok {
					continue
				}
				if ms, ok := ir.Resolve(ia.X).(*ssa.MakeSlice); ok && ms.Parent() == fn {
					if k, isk := ir.ConstBool(st.Val); isk && k {
						maskStores = append(maskStores, st)
						maskAlloc = ms
						if host != fn {
							c.Attribute(host, fn)
						}
					}
				}
			}
		}
	}
	c.Floor("mask[j]=true stores", len(maskStores), 1)
	if len(maskStores) == 0 {
		return
	}
	for _, msi := range maskStores {
		st := msi.(*ssa.Store)
		jIdx := st.Addr.(*ssa.IndexAddr).Index
		one := instrSinks([]ssa.Instruction{msi}, "mask[j]=true")
		notMasked := eng.NamedGuard{Name: "!mask[j]", G: func(cd ir.Cond) (bool, bool) {
			u, ok := cd.V.(*ssa.UnOp)
			if !ok || u.Op != token.MUL {
				return false, false
			}
			ia, ok := u.X.(*ssa.IndexAddr)
			if !ok || ir.Resolve(ia.X) != maskAlloc || ia.Index != jIdx {
				return false, false
			}
			return true, false
		}}
		host := msi.Parent()
		eng.Dominates(c, rule, host, notMasked, one, "mask[j] = true", nil)
		verified := eng.NamedGuard{Name: "s.Verify(keys[j], data, sig)", G: func(cd ir.Cond) (bool, bool) {
			cl, _ := ir.CallOf(cd.V)
			if cl == nil {
				return false, false
			}
			o := ir.CalleeObj(cl)
			if o == nil || o.Name() != "Verify" || o.Pkg() == nil || o.Pkg().Path() != "github.com/ontio/ontology-crypto/signature" {
				return false, false
			}
			// key argument is keys[j]
			a := cl.Common().Args
			u, ok := ir.Strip(a[0]).(*ssa.UnOp)
			if !ok {
				return false, false
			}
			ia, ok := u.X.(*ssa.IndexAddr)
			if !ok || !isParam("keys")(ia.X) || ia.Index != jIdx || !isParam("data")(a[1]) {
				return false, false
			}
			return true, true
		}}
		eng.Dominates(c, rule, host, verified, one, "mask[j] = true", nil)
	}
	// per-signature: the outer loop iteration must set a mask slot (valid flag): every outer iteration executes a mask store
	outer := eng.FindSliceLoopsByBound(fn, isParam("m"))
	if len(outer) != 1 {
		c.Broken(rule, fn, "outer loop i < m", c.P.Rel(fn.Pos()), sprintf("%d", len(outer)))
		return
	}
	// the used-key mask must live across signatures: allocated once, outside the per-signature loop
	if mi, isI := maskAlloc.(ssa.Instruction); isI {
		rr := ir.NewReach(fn)
		rr.RunFromBlock(outer[0].Body)
		c.Decide(!rr.Instr(mi), rule, fn, "the used-key mask is allocated once, before the per-signature loop (distinctness holds across signatures)", c.P.Rel(mi.Pos()), "")
	}
	eng.IterationMustExec(c, rule, fn, outer[0].Header, outer[0].Body, "for i < m", "a mask[j]=true store (one distinct key per signature)", func(in ssa.Instruction) bool {
		for _, ms := range maskStores {
			if in == ms {
				return true
			}
		}
		return false
	})
	// and nil return only after the outer loop exits normally
	ex := ir.Edge{From: outer[0].Header, Idx: 1 - indexOfSucc(outer[0].Header, outer[0].Body)}
	r := ir.NewReach(fn).CutEdges([]ir.Edge{ex}).Run(nil)
	okx := true
	for _, s := range succ {
		if r.SinkReachable(s) {
			okx = false
		}
	}
	c.Decide(okx, rule, fn, "nil return only after all m signatures were matched", c.P.Rel(fn.Pos()), "")
}
