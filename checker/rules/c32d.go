package rules

import (
	"golang.org/x/tools/go/ssa"

	"polyverif/core"
	"polyverif/eng"
	"polyverif/ir"
)

// checkVoteOnlyForWitnessedApprover: CheckConsensusSigns records a vote for
// whatever address it is handed.  At every (effective) call site the call is
// reached only after utils.ValidateOwner(native, <that address>) returned nil —
// the call must be there AND its error must be what decides; a witness check
// whose result is overwritten lets anyone cast a validator's vote by naming the
// validator.
func checkVoteOnlyForWitnessedApprover(c *core.Ctx, rule string, inPkg func(*ssa.Function) bool) {
	fn := c.Fn(pkNM, "CheckConsensusSigns")
	vo := eng.Obj(c, pkUtils, "ValidateOwner")
	if fn == nil || vo == nil {
		return
	}
	n := 0
	forEachEffectiveSite(c, fn, func(caller *ssa.Function, site ssa.CallInstruction, a []ssa.Value) {
		if inPkg != nil && !inPkg(caller) {
			return
		}
		n++
		addr := a[3]
		g := eng.NamedGuard{Name: "ValidateOwner(approver address) err==nil", G: ir.ErrNil(func(cl *ssa.Call) bool {
			return ir.CalleeIs(cl, vo) && sameValue(cl.Common().Args[1], addr)
		})}
		eng.Dominates(c, rule, caller, g, []ir.Sink{{Instr: site, Note: "CheckConsensusSigns"}}, "vote recorded by CheckConsensusSigns", nil)
	})
	c.Floor("CheckConsensusSigns call sites ("+rule+")", n, 3)
}
