package rules

import (
	"go/token"
	"go/types"

	"golang.org/x/tools/go/ssa"

	"polyverif/core"
	"polyverif/ir"
)

// checkFileOffsetsWide: the byte offset handed to ReadAt / WriteAt / Seek by the node store is computed in
// 64 bits.  A product position × 32 evaluated in uint32 wraps once the file passes 4 GiB; the read then
// silently returns a node from the start of the file and the served proof no longer verifies.
func checkFileOffsetsWide(c *core.Ctx) {
	n := 0
	for _, fn := range funcsOfPkgs(c, "merkle") {
		for _, ci := range ir.Calls(fn, func(ci ssa.CallInstruction) bool {
			o := ir.CalleeObj(ci)
			return o != nil && (o.Name() == "ReadAt" || o.Name() == "WriteAt" || o.Name() == "Seek")
		}) {
			a := ci.Common().Args
			var off ssa.Value
			for _, x := range a {
				if bt, ok := x.Type().Underlying().(*types.Basic); ok && bt.Kind() == types.Int64 {
					off = x
					break
				}
			}
			if off == nil {
				continue
			}
			n++
			narrow := ""
			var walk func(v ssa.Value, d int)
			walk = func(v ssa.Value, d int) {
				if d > 10 || narrow != "" {
					return
				}
				switch x := v.(type) {
				case *ssa.Convert:
					walk(x.X, d+1)
				case *ssa.BinOp:
					switch x.Op {
					case token.MUL, token.ADD, token.SHL:
						if bt, ok := x.Type().Underlying().(*types.Basic); ok {
							switch bt.Kind() {
							case types.Int8, types.Int16, types.Int32, types.Uint8, types.Uint16, types.Uint32:
								narrow = sprintf("%s evaluated in %s at %s", x.Op, bt.Name(), c.P.Rel(x.Pos()))
							}
						}
					}
					walk(x.X, d+1)
					walk(x.Y, d+1)
				}
			}
			walk(off, 0)
			c.Decide(narrow == "", "C08.node-store", fn, "file offsets of the node store are computed in 64 bits", c.P.Rel(ci.Pos()), narrow)
		}
	}
	c.Floor("file offsets of the node store", n, 2)
}
