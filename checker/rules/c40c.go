package rules

import (
	"go/constant"

	"polyverif/core"
	"polyverif/eng"
)

// C40 (continued) — "committers exclude the leading proposers".  Whether
// calcParticipantPeers builds and applies the excluded set is decided by
// checkCalcEndorserOrCommitter(end); buildParticipantConfig calls the selection
// with end = P (proposers), P+E (endorsers) and P+E+C (committers), P/E/C being
// the MAX_*_COUNT constants.  The predicate is a pure function of an integer, so
// it is evaluated on exactly those three values: false, true, true.
func checkRoleWindowPredicate(c *core.Ctx) {
	const rule = "C40.role-window"
	fn := c.Fn(pkVbft, "checkCalcEndorserOrCommitter")
	if fn == nil {
		return
	}
	get := func(n string) (int64, bool) {
		k, err := c.P.Const("consensus/vbft/config", n)
		if err != nil {
			return 0, false
		}
		return constant.Int64Val(k)
	}
	p, ok1 := get("MAX_PROPOSER_COUNT")
	e, ok2 := get("MAX_ENDORSER_COUNT")
	cm, ok3 := get("MAX_COMMITTER_COUNT")
	if !ok1 || !ok2 || !ok3 {
		c.Broken(rule, fn, "MAX_*_COUNT constants", c.P.Rel(fn.Pos()), "not found")
		return
	}
	for _, tc := range []struct {
		role string
		end  int64
		want bool
	}{{"proposers", p, false}, {"endorsers", p + e, true}, {"committers", p + e + cm, true}} {
		got, ok := eng.EvalIntPredicate(fn, []int64{tc.end})
		if !ok {
			c.Broken(rule, fn, "evaluation of the role-window predicate for "+tc.role, c.P.Rel(fn.Pos()), "the function is no longer a pure comparison of its argument with constants")
			continue
		}
		c.Decide(got == tc.want, rule, fn, sprintf("checkCalcEndorserOrCommitter(%d) [%s] == %v", tc.end, tc.role, tc.want), c.P.Rel(fn.Pos()),
			sprintf("answers %v for the %s range: the leading proposers are %s there", got, tc.role, map[bool]string{true: "excluded", false: "NOT excluded"}[got]))
	}
}
