package rules

import (
	"go/token"

	"golang.org/x/tools/go/ssa"

	"polyverif/core"
	"polyverif/ir"
)

// C15 (continued) — MemDB.Reset is what throws a transaction's cache away
// (CacheDB.Reset → MemDB.Reset, run before every transaction).  It must return
// the skip list to the constructor's state: the node array is cut back to the
// head node, and EVERY forward pointer of the head (levels 0 … tMaxHeight−1) is
// cleared.  A loop bounded by the current height — which Reset has just set to
// 1 — leaves the upper-level pointers aimed at nodes of the discarded
// transaction; the next transaction then walks into stale indexes.
//
// Decided: nodeData is re-sliced to a constant length L; a counted loop
// n = 0,1,… < B with constant B stores 0 into nodeData[base+n]; base+B == L (the
// whole head node is covered); n, kvSize, maxHeight and kvData are reset.
func checkMemDBResetTotal(c *core.Ctx, rule string) {
	fn := c.Fn(pkOverlayDB, "MemDB.Reset")
	if fn == nil {
		return
	}
	pos := c.P.Rel(fn.Pos())
	// Reset and the same-receiver helpers it calls on itself (`p.resetHeadNode()`)
	hosts := []*ssa.Function{fn}
	for _, ci := range ir.Calls(fn, nil) {
		h := ci.Common().StaticCallee()
		if h != nil && h != fn && h.Pkg == fn.Pkg && h.Signature.Recv() != nil && len(h.Blocks) > 0 && len(ci.Common().Args) > 0 && ir.Strip(ci.Common().Args[0]) == ssa.Value(fn.Params[0]) {
			hosts = append(hosts, h)
			c.Attribute(h, fn)
		}
	}
	storesOf := func(field string) []*ssa.Store {
		var out []*ssa.Store
		for _, h := range hosts {
			out = append(out, allFieldStores(h, field)...)
		}
		return out
	}
	// L: p.nodeData = p.nodeData[:L]
	var sliceLen int64 = -1
	for _, st := range storesOf("nodeData") {
		if sl, ok := st.Val.(*ssa.Slice); ok && sl.High != nil {
			if k, isK := ir.ConstInt(sl.High); isK {
				sliceLen = k
			}
		}
	}
	c.Decide(sliceLen > 0, rule, fn, "the node array is cut back to a constant length (the head node)", pos, sprintf("%d", sliceLen))
	// scalar resets
	for _, f := range []string{"n", "kvSize"} {
		ok := false
		for _, st := range storesOf(f) {
			if k, isK := ir.ConstInt(st.Val); isK && k == 0 {
				ok = true
			}
		}
		c.Decide(ok, rule, fn, "field "+f+" is reset to 0", pos, "")
	}
	okKV := false
	for _, st := range storesOf("kvData") {
		if sl, ok := st.Val.(*ssa.Slice); ok && sl.High != nil {
			if k, isK := ir.ConstInt(sl.High); isK && k == 0 {
				okKV = true
			}
		}
	}
	c.Decide(okKV, rule, fn, "the key/value buffer is truncated to length 0", pos, "")
	// the clearing loop
	found, total := false, false
	why := "no counted loop storing 0 into nodeData[base+n] found"
	var allBlocks []*ssa.BasicBlock
	for _, h := range hosts {
		allBlocks = append(allBlocks, h.Blocks...)
	}
	for _, b := range allBlocks {
		for _, in := range b.Instrs {
			st, ok := in.(*ssa.Store)
			if !ok {
				continue
			}
			if k, isK := ir.ConstInt(st.Val); !isK || k != 0 {
				continue
			}
			ia, ok := st.Addr.(*ssa.IndexAddr)
			if !ok {
				continue
			}
			if _, f, okF := fieldLoad(ia.X); !okF || f != "nodeData" {
				continue
			}
			add, ok := ia.Index.(*ssa.BinOp)
			if !ok || add.Op != token.ADD {
				continue
			}
			var base int64
			var ctr ssa.Value
			if k, isK := ir.ConstInt(add.X); isK {
				base, ctr = k, add.Y
			} else if k, isK := ir.ConstInt(add.Y); isK {
				base, ctr = k, add.X
			} else {
				continue
			}
			// the counter: φ[0, φ+1] tested φ < B, or — `for i := range array` — c = φ[−1, c]+1 tested c < B
			var counter ssa.Value
			if phi, isPhi := ctr.(*ssa.Phi); isPhi && len(phi.Edges) == 2 {
				zero, step := false, false
				for _, e := range phi.Edges {
					if k, isK := ir.ConstInt(e); isK && k == 0 {
						zero = true
					}
					if bo, isB := e.(*ssa.BinOp); isB && bo.Op == token.ADD && bo.X == ssa.Value(phi) {
						if k, isK := ir.ConstInt(bo.Y); isK && k == 1 {
							step = true
						}
					}
				}
				if zero && step {
					counter = phi
				}
			} else if inc, isInc := ctr.(*ssa.BinOp); isInc && inc.Op == token.ADD {
				if phi, isPhi := inc.X.(*ssa.Phi); isPhi && len(phi.Edges) == 2 {
					if k, isK := ir.ConstInt(inc.Y); isK && k == 1 {
						minus1, back := false, false
						for _, e := range phi.Edges {
							if k2, isK2 := ir.ConstInt(e); isK2 && k2 == -1 {
								minus1 = true
							}
							if e == ssa.Value(inc) {
								back = true
							}
						}
						if minus1 && back {
							counter = inc
						}
					}
				}
			}
			if counter == nil || counter.Referrers() == nil {
				continue
			}
			found = true
			for _, r := range *counter.Referrers() {
				cmp, isC := r.(*ssa.BinOp)
				if !isC || cmp.Op != token.LSS || cmp.X != counter {
					continue
				}
				bound, isK := ir.ConstInt(cmp.Y)
				if !isK {
					why = "the clearing loop is bounded by a run-time value (" + cmp.Y.Name() + "), not by the head node's height"
					continue
				}
				if base+bound == sliceLen {
					total = true
				} else {
					why = sprintf("the loop clears nodeData[%d..%d) but the head node is nodeData[0..%d)", base, base+bound, sliceLen)
				}
			}
		}
	}
	if !found {
		c.Broken(rule, fn, "clearing loop over the head node's forward pointers", pos, why)
		return
	}
	c.Decide(total, rule, fn, "every forward pointer of the head node is cleared (loop bound = head node height)", pos, why)
}
