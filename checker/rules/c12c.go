package rules

import (
	"golang.org/x/tools/go/ssa"

	"polyverif/core"
	"polyverif/ir"
)

// C12 (continued) — replay writes what submit writes.  recoverStore re-applies a
// block to the state store through saveBlockToStateStore only; whatever
// submitBlock puts into the state-store batch OUTSIDE that function is missing
// after a crash between the block-store and the state-store commit (the block
// accumulator one leaf short, the next block refused).  So every per-block
// state-store write (the Add…/SaveCurrentBlock/BatchPut…/BatchDelete… methods
// of StateStore) is issued, effectively, from saveBlockToStateStore alone.
func checkReplayWritesWhatSubmitWrites(c *core.Ctx) {
	const rule = "C12.replay-writes-what-submit-writes"
	owner := c.Fn(pkLedger, "LedgerStoreImp.saveBlockToStateStore")
	if owner == nil {
		return
	}
	writers := []string{"AddStateMerkleTreeRoot", "AddBlockMerkleTreeRoot", "SaveCurrentBlock", "AddCrossStates", "BatchPutRawKeyVal", "BatchDeleteRawKey"}
	n := 0
	for _, w := range writers {
		f := c.Fn(pkLedger, "StateStore."+w)
		if f == nil {
			continue
		}
		users := c.P.EffectiveCallers(f, func(y *ssa.Function) bool { return y == owner })
		var bad []string
		for _, u := range users {
			if u == owner {
				n++
				continue
			}
			// other StateStore methods may compose writers (none does today); anything else is a second path
			bad = append(bad, ir.FuncName(u))
		}
		c.Decide(len(bad) == 0 && len(users) > 0, rule, f, "StateStore."+w+" is issued from saveBlockToStateStore only (the one function submit and crash replay share)", c.P.Rel(f.Pos()),
			sprintf("also called from %v: crash replay (recoverStore → saveBlockToStateStore) skips that write", bad))
	}
	c.Floor("per-block state-store writers issued from saveBlockToStateStore", n, 5)
}
