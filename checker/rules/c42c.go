package rules

import (
	"go/token"

	"golang.org/x/tools/go/ssa"

	"polyverif/core"
	"polyverif/ir"
)

// C42 (continued) — vbft commitDone decides a round from signature counts with the
// bound  count > N−1−C , i.e. count >= N−C: with C = ⌊(N−1)/3⌋ that is the block
// threshold N−f the intersection argument needs.  "2C+1 signatures" equals N−C only
// for N = 3f+1; for every other N it is smaller and two accepting sets can share
// f validators or fewer.  Decided: every count comparison of commitDone is taken
// against the SSA tree Sub(Sub(N,1),C) over the function's own parameters N and C.
func checkCommitDoneQuorum(c *core.Ctx, rule string) {
	fn := c.Fn(pkVbft, "BlockPool.commitDone")
	if fn == nil {
		return
	}
	nP, cP := paramByName(fn, "N"), paramByName(fn, "C")
	if nP == nil || cP == nil {
		c.Broken(rule, fn, "parameters N and C", c.P.Rel(fn.Pos()), "not found")
		return
	}
	isQuorum := func(v ssa.Value) bool {
		s1, ok := ir.Strip(v).(*ssa.BinOp)
		if !ok || s1.Op != token.SUB || ir.Strip(s1.Y) != ssa.Value(cP) {
			return false
		}
		s2, ok := ir.Strip(s1.X).(*ssa.BinOp)
		if !ok || s2.Op != token.SUB || ir.Strip(s2.X) != ssa.Value(nP) {
			return false
		}
		k, okk := ir.ConstInt(s2.Y)
		return okk && k == 1
	}
	n := 0
	// commitDone and the same-package helpers it hands its bound to (their parameters resolve to the
	// caller's arguments while bound)
	hosts, releaseHosts := hostsWithHelpers(fn)
	defer releaseHosts()
	var conds []ir.Cond
	for _, h := range hosts {
		conds = append(conds, ir.Conds(h)...)
	}
	for _, cd := range conds {
		b, ok := cd.V.(*ssa.BinOp)
		if !ok || b.Op != token.GTR {
			continue
		}
		if _, isK := b.Y.(*ssa.Const); isK {
			continue
		}
		if !types_isUint32(b.X) {
			continue
		}
		n++
		c.Decide(isQuorum(b.Y), rule, fn, "signature count is compared with N−1−C (count >= N−C)", c.P.Rel(b.Pos()),
			"the bound is "+ir.Strip(b.Y).String()+", not N−1−C: for N ≠ 3f+1 fewer than N−f distinct signers decide the round")
	}
	c.Floor("signature-count comparisons in commitDone", n, 1)
}

func types_isUint32(v ssa.Value) bool {
	return v.Type().Underlying().String() == "uint32"
}
