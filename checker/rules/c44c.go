package rules

import (
	"strings"

	"golang.org/x/tools/go/ssa"

	"polyverif/core"
	"polyverif/ir"
)

// C44 (continued) — hand-written binary message codecs of vbft (messages that
// are not JSON): what Serialize writes is the message's own fields, and they are
// the fields Deserialize assigns.  A scalar taken from an accessor instead of the
// field (GetBlockNum() is a stub returning 0 for this message kind) encodes a
// constant; decoding never fails, the field just does not survive the round trip.
func checkVbftBinaryCodecFields(c *core.Ctx) {
	const rule = "C44.binary-codec-fields"
	pk := c.P.Pkgs[ir.PkgPath(pkVbft)]
	if pk == nil || pk.SSA == nil {
		return
	}
	n := 0
	for _, tn := range []string{"BlockFetchRespMsg"} {
		ser := c.Fn(pkVbft, tn+".Serialize")
		des := c.Fn(pkVbft, tn+".Deserialize")
		if ser == nil || des == nil {
			continue
		}
		recv := ser.Params[0]
		written := map[string]bool{}
		for _, ci := range ir.Calls(ser, nil) {
			o := ir.CalleeObj(ci)
			if o == nil {
				continue
			}
			a := ci.Common().Args
			switch {
			case strings.HasPrefix(o.Name(), "Write") && len(a) >= 2 && o.Pkg() != nil && strings.HasSuffix(o.Pkg().Path(), "common/serialization"):
				n++
				v := ir.Strip(a[len(a)-1])
				base, f, ok := fieldLoad(v)
				okRecv := ok && ir.Strip(base) == ssa.Value(recv)
				if okRecv {
					written[f] = true
				}
				c.Decide(okRecv, rule, ser, "the scalar written is a field of the message itself", c.P.Rel(ci.Pos()),
					"the value written is "+v.String()+", not a field load of the receiver: if the accessor does not return that field the value is lost in transit")
			case o.Name() == "Serialize" && len(a) >= 1:
				// msg.F.Serialize(...)
				r := a[0]
				if fa, isFA := r.(*ssa.FieldAddr); isFA && ir.Strip(fa.X) == ssa.Value(recv) {
					written[fieldNameOf(fa)] = true
				} else if base, f, ok := fieldLoad(r); ok && ir.Strip(base) == ssa.Value(recv) {
					written[f] = true
				}
			}
		}
		assigned := map[string]bool{}
		drecv := des.Params[0]
		for _, b := range des.Blocks {
			for _, in := range b.Instrs {
				switch x := in.(type) {
				case *ssa.Store:
					if fa, ok := x.Addr.(*ssa.FieldAddr); ok && ir.Strip(fa.X) == ssa.Value(drecv) {
						assigned[fieldNameOf(fa)] = true
					}
				case ssa.CallInstruction:
					if o := ir.CalleeObj(x); o != nil && o.Name() == "Deserialize" && len(x.Common().Args) >= 1 {
						if fa, ok := x.Common().Args[0].(*ssa.FieldAddr); ok && ir.Strip(fa.X) == ssa.Value(drecv) {
							assigned[fieldNameOf(fa)] = true
						}
					}
				}
			}
		}
		same := len(written) == len(assigned)
		for f := range assigned {
			if !written[f] {
				same = false
			}
		}
		c.Decide(same, rule, ser, tn+": the fields written are the fields the reader assigns", c.P.Rel(ser.Pos()), sprintf("written %v, assigned %v", ir.SortedKeys(written), ir.SortedKeys(assigned)))
	}
	c.Floor("scalars written by hand-written vbft binary codecs", n, 1)
}
