package rules

import (
	"go/token"

	"golang.org/x/tools/go/ssa"

	"polyverif/core"
	"polyverif/eng"
	"polyverif/ir"
)

// C38 — recent-block duplicate detection is exact.

const pkIncr = "validator/increment"

func init() {
	core.Register(&core.Check{
		ID: "C38", Level: "other", Title: "Recent-block duplicate detection is exact",
		Technique: "lock discipline (per-object lockset over SSA), guard dominance, paired field updates, loop-iteration must-execute",
		Explain:   "Structural necessary conditions, decided on the SSA of validator/increment and validator/stateful: (LS) every access to IncrementValidator.blocks/baseHeight holds IncrementValidator.mutex of the same object (writes and reads; helper blockRange is discharged at its call sites); only AddBlock and Clean write these fields and maxBlocks is written only at construction. (AddBlock) the append to blocks is dominated by baseHeight+uint32(len(blocks)) == block.Header.Height (exact equality: a stale or gapped block is ignored), the base is (re)initialised only under len(blocks)==0, the eviction blocks=blocks[1:] is dominated by len(blocks) >= maxBlocks and is paired in the same basic block with baseHeight += 1 (and vice versa), the append is unreachable with len(blocks) >= maxBlocks without passing the eviction, and the appended set is the map filled by a loop over block.Transactions that executes set[tx.Hash()] = true in every iteration. (Verify) nil is returned only after startHeight >= baseHeight; the scan index starts at int(startHeight-baseHeight), advances by 1 and is bounded by len(blocks); every iteration looks up tx.Hash() in blocks[i]; from the found edge no nil return is reachable. (Stateful) the CheckResponse sent carries ErrDuplicatedTx on the `exist` edge of IsContainTransaction(msg.Tx.Hash()) and ErrUnknown on its error edge. NOT decided: exactness over all block sequences (a history property) — only the guards that make it so.",
		Run:       runC38,
	})
}

func selfField(v ssa.Value, recv *ssa.Parameter, field string) bool {
	base, f, ok := fieldLoad(v)
	return ok && f == field && ir.Strip(base) == ssa.Value(recv)
}

func lenOfSelfField(v ssa.Value, recv *ssa.Parameter, field string) bool {
	v = ir.Strip(v)
	cl, ok := v.(*ssa.Call)
	if !ok {
		return false
	}
	b, ok := cl.Common().Value.(*ssa.Builtin)
	return ok && b.Name() == "len" && selfField(cl.Common().Args[0], recv, field)
}

func storesToField(fn *ssa.Function, recv *ssa.Parameter, field string) []*ssa.Store {
	var out []*ssa.Store
	for _, b := range fn.Blocks {
		for _, in := range b.Instrs {
			st, ok := in.(*ssa.Store)
			if !ok {
				continue
			}
			fa, ok := st.Addr.(*ssa.FieldAddr)
			if ok && fieldNameOf(fa) == field && fa.X == ssa.Value(recv) {
				out = append(out, st)
			}
		}
	}
	return out
}

func storeSinks(sts []*ssa.Store, note string) []ir.Sink {
	var out []ir.Sink
	for _, s := range sts {
		out = append(out, ir.Sink{Instr: s, Note: note})
	}
	return out
}

func runC38(c *core.Ctx) {
	checkCleanResetsBase(c, "C38.clean")
	checkContainTxAsksTheStore(c)
	pk := c.P.Pkgs[ir.PkgPath(pkIncr)]
	if pk == nil || pk.SSA == nil {
		c.Broken("anchor", pkIncr, "package", "", "not loaded")
		return
	}
	fns := allFuncs(pk.SSA)
	ls := eng.LockDiscipline(c, "C38.lock", eng.LSGuard{Pkg: pkIncr, Type: "IncrementValidator", Mutex: "mutex", Fields: []string{"blocks", "baseHeight"}}, fns, 4)
	c.Floor("guarded accesses to IncrementValidator.blocks/baseHeight", ls.Accesses, 14)
	checkFieldWriters(c, "C38.writers", pkIncr, "IncrementValidator", "blocks", map[string]bool{"(*validator/increment.IncrementValidator).AddBlock": true, "(*validator/increment.IncrementValidator).Clean": true})
	checkFieldWriters(c, "C38.writers", pkIncr, "IncrementValidator", "baseHeight", map[string]bool{"(*validator/increment.IncrementValidator).AddBlock": true, "(*validator/increment.IncrementValidator).Clean": true})
	checkFieldWriters(c, "C38.writers", pkIncr, "IncrementValidator", "maxBlocks", map[string]bool{"validator/increment.NewIncrementValidator": true})

	// ---- AddBlock
	if fn := c.Fn(pkIncr, "IncrementValidator.AddBlock"); fn != nil {
		recv := fn.Params[0]
		blockP := fn.Params[1]
		isBlockHeight := func(v ssa.Value) bool {
			hb, f, ok := fieldLoad(v)
			if !ok || f != "Height" {
				return false
			}
			bb, f2, ok2 := fieldLoad(hb)
			return ok2 && f2 == "Header" && ir.Strip(bb) == ssa.Value(blockP)
		}
		var appends, evicts, bumps, inits []*ssa.Store
		// classify the writes of one function (AddBlock, or a helper of the same object it calls)
		classify := func(host *ssa.Function, r *ssa.Parameter) {
			for _, st := range storesToField(host, r, "blocks") {
				switch x := st.Val.(type) {
				case *ssa.Call:
					if b, ok := x.Common().Value.(*ssa.Builtin); ok && b.Name() == "append" && selfField(x.Common().Args[0], recv, "blocks") {
						appends = append(appends, st)
						continue
					}
				case *ssa.Slice:
					if k, ok := ir.ConstInt(x.Low); ok && k == 1 && x.High == nil && selfField(x.X, recv, "blocks") {
						evicts = append(evicts, st)
						continue
					}
				}
				c.Violate("C38.addblock", fn, "every write to blocks is the append or the one-block eviction", c.P.Rel(st.Pos()), "unrecognised write")
			}
			for _, st := range storesToField(host, r, "baseHeight") {
				if b, ok := st.Val.(*ssa.BinOp); ok && b.Op == token.ADD && selfField(b.X, recv, "baseHeight") {
					if k, okk := ir.ConstInt(b.Y); okk && k == 1 {
						bumps = append(bumps, st)
						continue
					}
				}
				if isBlockHeight(st.Val) {
					inits = append(inits, st)
					continue
				}
				c.Violate("C38.addblock", fn, "every write to baseHeight is the initialisation or the +1 bump", c.P.Rel(st.Pos()), "unrecognised write")
			}
		}
		classify(fn, recv)
		// the eviction may be a helper of the same validator called from AddBlock
		evictHost := fn
		var evictCall *ssa.Call
		if len(evicts) == 0 {
			hosts, releaseHosts := hostsWithHelpers(fn)
			defer releaseHosts()
			for _, h := range hosts[1:] {
				cl := callInFn(fn, h)
				if h.Signature.Recv() == nil || cl == nil || len(cl.Common().Args) == 0 || ir.Strip(cl.Common().Args[0]) != ssa.Value(recv) {
					continue
				}
				if len(storesToField(h, h.Params[0], "blocks")) == 0 {
					continue
				}
				classify(h, h.Params[0])
				evictHost, evictCall = h, cl
				c.Attribute(h, fn)
				break
			}
		}
		c.Floor("append to blocks in AddBlock", len(appends), 1)
		c.Floor("eviction in AddBlock", len(evicts), 1)
		c.Floor("baseHeight initialisation in AddBlock", len(inits), 1)
		contiguous := cmpGuard("baseHeight + uint32(len(blocks)) == block.Header.Height", func(b *ssa.BinOp) (bool, bool) {
			if b.Op != token.EQL && b.Op != token.NEQ {
				return false, false
			}
			side := func(x, y ssa.Value) bool {
				// the sum may be written inline or be what a range helper (blockRange) returns
				x, release := valueVia(x)
				defer release()
				add, ok := ir.Strip(x).(*ssa.BinOp)
				if !ok || add.Op != token.ADD {
					return false
				}
				ok1 := selfField(add.X, recv, "baseHeight") && lenOfSelfField(add.Y, recv, "blocks")
				ok2 := selfField(add.Y, recv, "baseHeight") && lenOfSelfField(add.X, recv, "blocks")
				return (ok1 || ok2) && isBlockHeight(y)
			}
			if !side(b.X, b.Y) && !side(b.Y, b.X) {
				return false, false
			}
			return true, b.Op == token.EQL
		})
		eng.Dominates(c, "C38.addblock", fn, contiguous, storeSinks(appends, "append to blocks"), "append to blocks", nil)
		if evictCall == nil {
			eng.Dominates(c, "C38.addblock", fn, contiguous, storeSinks(evicts, "eviction"), "eviction of the oldest block", nil)
		} else {
			var callSinks []ir.Sink
			for _, b := range fn.Blocks {
				for _, in := range b.Instrs {
					if cl, ok := in.(ssa.CallInstruction); ok && cl.Common().StaticCallee() == evictHost {
						callSinks = append(callSinks, ir.Sink{Instr: in, Note: "call of the eviction helper"})
					}
				}
			}
			eng.Dominates(c, "C38.addblock", fn, contiguous, callSinks, "eviction of the oldest block", nil)
		}
		full := cmpGuard("len(blocks) >= maxBlocks", func(b *ssa.BinOp) (bool, bool) {
			if lenOfSelfField(b.X, recv, "blocks") && selfField(b.Y, recv, "maxBlocks") {
				switch b.Op {
				case token.GEQ:
					return true, true
				case token.LSS:
					return true, false
				}
			}
			return false, false
		})
		eng.Dominates(c, "C38.addblock", evictHost, full, storeSinks(evicts, "eviction"), "eviction of the oldest block", nil)
		isLenBlocks := func(v ssa.Value) bool { return lenOfSelfField(v, recv, "blocks") }
		empty := cmpGuard("len(blocks) == 0", func(b *ssa.BinOp) (bool, bool) {
			// a length is never negative: len == 0, len < 1 and len <= 0 are the same test
			k, isK := ir.ConstInt(b.Y)
			if !isLenBlocks(b.X) || !isK {
				return false, false
			}
			switch {
			case b.Op == token.EQL && k == 0, b.Op == token.LSS && k == 1, b.Op == token.LEQ && k == 0:
				return true, true
			case b.Op == token.NEQ && k == 0, b.Op == token.GEQ && k == 1, b.Op == token.GTR && k == 0:
				return true, false
			}
			return false, false
		})
		eng.Dominates(c, "C38.addblock", fn, empty, storeSinks(inits, "baseHeight = block height"), "base height initialisation", nil)
		// pairing in the same basic block
		for _, e := range evicts {
			n := 0
			for _, b := range bumps {
				if b.Block() == e.Block() {
					n++
				}
			}
			c.Decide(n == 1, "C38.addblock", fn, "eviction blocks=blocks[1:] is paired with exactly one baseHeight += 1", c.P.Rel(e.Pos()), sprintf("%d bump(s) in the same block", n))
		}
		for _, b := range bumps {
			n := 0
			for _, e := range evicts {
				if b.Block() == e.Block() {
					n++
				}
			}
			c.Decide(n == 1, "C38.addblock", fn, "baseHeight += 1 is paired with exactly one eviction", c.P.Rel(b.Pos()), sprintf("%d eviction(s) in the same block", n))
		}
		// capacity: the append is not reachable on the `full` edge without the eviction
		{
			passFull := ir.PassEdges(evictHost, full.G)
			ok := len(passFull) > 0
			detail := sprintf("%d full edge(s)", len(passFull))
			for _, e := range passFull {
				r := ir.NewReach(evictHost)
				for _, ev := range evicts {
					r.Barrier[ev] = true
				}
				r.RunFromBlock(e.To())
				if evictCall == nil {
					for _, a := range appends {
						if r.Instr(a) {
							ok = false
							detail = "append reachable from the full edge without eviction"
						}
					}
				} else {
					// the helper does not return from its full edge without evicting …
					for _, b := range evictHost.Blocks {
						if ret, isRet := b.Instrs[len(b.Instrs)-1].(*ssa.Return); isRet && r.Instr(ret) {
							ok = false
							detail = "the eviction helper returns from its full edge without evicting"
						}
					}
				}
			}
			if evictCall != nil {
				// … and AddBlock calls it on every path to the append
				r := ir.NewReach(fn)
				r.Barrier[evictCall] = true
				r.Run(nil)
				for _, a := range appends {
					if r.Instr(a) {
						ok = false
						detail = "append reachable without calling the eviction helper"
					}
				}
			}
			c.Decide(ok, "C38.addblock", fn, "with len(blocks) >= maxBlocks the append is preceded by the eviction", c.P.Rel(fn.Pos()), detail)
		}
		// appended element: map filled with tx.Hash() for every transaction
		for _, a := range appends {
			call := a.Val.(*ssa.Call)
			elems := eng.VariadicElems(call.Common().Args[1])
			okSet := false
			if len(elems) == 1 {
				// the set is built in AddBlock itself or by a helper handed block.Transactions
				setVal, releaseSet := valueVia(elems[0])
				defer releaseSet()
				host := fn
				if setVal != elems[0] {
					if in, isIn := setVal.(ssa.Instruction); isIn {
						host = in.Parent()
					}
				}
				if mk, isMk := ir.Strip(setVal).(*ssa.MakeMap); isMk {
					loops := eng.FindSliceLoops(host, func(v ssa.Value) bool {
						bb, f, okf := fieldLoad(v)
						return okf && f == "Transactions" && ir.Strip(bb) == ssa.Value(blockP)
					})
					c.Floor("loop over block.Transactions in AddBlock", len(loops), 1)
					for _, lp := range loops {
						okSet = eng.IterationMustExec(c, "C38.addblock", host, lp.Header, lp.Body, "the loop over block.Transactions", "set[tx.Hash()] = true", func(in ssa.Instruction) bool {
							mu, ok := in.(*ssa.MapUpdate)
							if !ok || mu.Map != ssa.Value(mk) {
								return false
							}
							h := calleeNamed(mu.Key, "Hash")
							if h == nil {
								return false
							}
							// receiver: element of block.Transactions
							el, isLd := h.Common().Args[0].(*ssa.UnOp)
							if !isLd {
								return false
							}
							ia, isIa := el.X.(*ssa.IndexAddr)
							if !isIa {
								return false
							}
							bb, f, okf := fieldLoad(ir.Resolve(ia.X))
							kb, isK := ir.ConstBool(mu.Value)
							return okf && f == "Transactions" && ir.Strip(bb) == ssa.Value(blockP) && isK && kb
						})
						// the append happens after the loop
						finished := eng.NamedGuard{Name: "loop over block.Transactions finished", G: func(cd ir.Cond) (bool, bool) {
							return cd.If == lp.Cond, false
						}}
						if host == fn {
							eng.Dominates(c, "C38.addblock", fn, finished, storeSinks(appends, "append to blocks"), "append to blocks", nil)
						} else {
							eng.Dominates(c, "C38.addblock", host, finished, ir.SuccessSinks(host), "return of the finished set", nil)
						}
					}
				}
			}
			c.Decide(okSet, "C38.addblock", fn, "the appended element is the hash set of block.Transactions", c.P.Rel(a.Pos()), "")
		}
	}

	// ---- Verify
	if fn := c.Fn(pkIncr, "IncrementValidator.Verify"); fn != nil {
		recv, txP, startP := fn.Params[0], fn.Params[1], fn.Params[2]
		succ := ir.SuccessSinks(fn)
		eng.Dominates(c, "C38.verify", fn, cmpGuard("startHeight >= baseHeight", func(b *ssa.BinOp) (bool, bool) {
			if ir.Strip(b.X) == ssa.Value(startP) && selfField(b.Y, recv, "baseHeight") {
				switch b.Op {
				case token.LSS:
					return true, false
				case token.GEQ:
					return true, true
				}
			}
			return false, false
		}), succ, "nil return", nil)
		loops := eng.FindSliceLoopsByBound(fn, func(v ssa.Value) bool { return lenOfSelfField(v, recv, "blocks") })
		host, hostSucc := fn, succ
		if len(loops) == 0 {
			// the scan may sit in a same-package helper answering "found": Verify returns nil only when
			// the helper says false, and the helper says false only after the scan ran to its end
			hosts, releaseHosts := hostsWithHelpers(fn)
			defer releaseHosts()
			for _, h := range hosts[1:] {
				ls := eng.FindSliceLoopsByBound(h, func(v ssa.Value) bool { return lenOfSelfField(v, recv, "blocks") })
				if len(ls) == 0 || h.Signature.Results().Len() != 1 {
					continue
				}
				if cl := callInFn(fn, h); cl != nil {
					loops, host = ls, h
					hostSucc = ir.BoolReturnSinks(h, 0, false)
					c.Attribute(h, fn)
					eng.Dominates(c, "C38.verify", fn, eng.NamedGuard{Name: "the scan helper found nothing", G: ir.BoolIs(func(x *ssa.Call) bool { return x == cl }, false)}, succ, "nil return", nil)
					break
				}
			}
		}
		c.Floor("scan loop in Verify", len(loops), 1)
		for _, lp := range loops {
			cmp := lp.Cond.Cond.(*ssa.BinOp)
			idx := lp.Index
			okInit, okStep := false, false
			for i, e := range idx.Edges {
				pred := idx.Block().Preds[i]
				if pred.Dominates(lp.Header) && pred != lp.Header {
					// initial value: int(startHeight - baseHeight)
					if sub, ok := ir.Strip(e).(*ssa.BinOp); ok && sub.Op == token.SUB && ir.Strip(sub.X) == ssa.Value(startP) && selfField(sub.Y, recv, "baseHeight") {
						okInit = true
					}
				} else {
					if add, ok := e.(*ssa.BinOp); ok && add.Op == token.ADD && add.X == ssa.Value(idx) {
						if k, okk := ir.ConstInt(add.Y); okk && k == 1 {
							okStep = true
						}
					}
				}
			}
			c.Decide(okInit, "C38.verify", fn, "scan starts at index int(startHeight − baseHeight)", c.P.Rel(cmp.Pos()), "")
			c.Decide(okStep, "C38.verify", fn, "scan advances by exactly one block per iteration", c.P.Rel(cmp.Pos()), "")
			// nil return only after the loop ran to its end
			eng.Dominates(c, "C38.verify", host, eng.NamedGuard{Name: "scan reached len(blocks)", G: func(cd ir.Cond) (bool, bool) {
				return cd.If == lp.Cond, false
			}}, hostSucc, "nil return", nil)
			var found []ir.Edge
			eng.IterationMustExec(c, "C38.verify", host, lp.Header, lp.Body, "the scan over blocks", "lookup blocks[i][tx.Hash()]", func(in ssa.Instruction) bool {
				lk, ok := in.(*ssa.Lookup)
				if !ok || !lk.CommaOk {
					return false
				}
				h := calleeNamed(lk.Index, "Hash")
				if h == nil || ir.Strip(h.Common().Args[0]) != ssa.Value(txP) {
					return false
				}
				ld, ok := lk.X.(*ssa.UnOp)
				if !ok {
					return false
				}
				ia, ok := ld.X.(*ssa.IndexAddr)
				if !ok || !selfField(ia.X, recv, "blocks") || ia.Index != ssa.Value(idx) {
					return false
				}
				// the found edge: if extract #1
				if refs := lk.Referrers(); refs != nil {
					for _, r := range *refs {
						ex, isEx := r.(*ssa.Extract)
						if !isEx || ex.Index != 1 {
							continue
						}
						if er := ex.Referrers(); er != nil {
							for _, u := range *er {
								if iff, isIf := u.(*ssa.If); isIf {
									found = append(found, ir.Edge{From: iff.Block(), Idx: 0})
								}
							}
						}
					}
				}
				return true
			})
			okFound := len(found) > 0
			for _, e := range found {
				r := ir.NewReach(host)
				r.RunFromBlock(e.To())
				for _, s := range hostSucc {
					if r.SinkReachable(s) {
						okFound = false
					}
				}
				// the loop must not continue either
				if r.BlockEntered(lp.Header) {
					okFound = false
				}
			}
			c.Decide(okFound, "C38.verify", fn, "a hit ends in a non-nil error (no nil return and no further iteration from the found edge)", c.P.Rel(cmp.Pos()), sprintf("%d found edge(s)", len(found)))
		}
	}

	// ---- stateful validator
	if fn := c.Fn("validator/stateful", "validator.Receive"); fn != nil {
		ict := eng.Obj(c, "core/ledger", "Ledger.IsContainTransaction")
		if ict != nil {
			// the query stands in Receive or in a same-package helper whose result is the code sent
			host := fn
			var hostCall *ssa.Call
			calls := ir.CallsTo(fn, ict)
			if len(calls) == 0 {
				hosts, releaseHosts := hostsWithHelpers(fn)
				defer releaseHosts()
				for _, h := range hosts[1:] {
					if cs := ir.CallsTo(h, ict); len(cs) > 0 && h.Signature.Results().Len() == 1 {
						host, calls, hostCall = h, cs, callInFn(fn, h)
						c.Attribute(h, fn)
						break
					}
				}
			}
			c.Floor("IsContainTransaction in stateful Receive", len(calls), 1)
			for _, ci := range calls {
				cl := ci.(*ssa.Call)
				h := calleeNamed(cl.Common().Args[len(cl.Common().Args)-1], "Hash")
				okArg := false
				if h != nil {
					if _, f, ok := fieldLoad(ir.Strip(h.Common().Args[0])); ok && f == "Tx" {
						okArg = true
					}
				}
				c.Decide(okArg, "C38.stateful", fn, "ledger membership is queried for msg.Tx.Hash()", c.P.Rel(cl.Pos()), "")
				// the ErrCode stored in the response: exist→ErrDuplicatedTx, err→ErrUnknown, else ErrNoError
				var stored ssa.Value
				for _, b := range fn.Blocks {
					for _, in := range b.Instrs {
						st, ok := in.(*ssa.Store)
						if !ok {
							continue
						}
						if fa, ok := st.Addr.(*ssa.FieldAddr); ok && fieldNameOf(fa) == "ErrCode" {
							stored = st.Val
						}
					}
				}
				type leaf struct {
					pred, join *ssa.BasicBlock
					v          ssa.Value
				}
				var leaves []leaf
				var pos token.Pos
				var expand func(v ssa.Value, pred, join *ssa.BasicBlock, depth int)
				expand = func(v ssa.Value, pred, join *ssa.BasicBlock, depth int) {
					if p, isPhi := v.(*ssa.Phi); isPhi && depth < 4 {
						for i, e := range p.Edges {
							expand(e, p.Block().Preds[i], p.Block(), depth+1)
						}
						return
					}
					leaves = append(leaves, leaf{pred, join, v})
				}
				if hostCall == nil {
					if p, isPhi := stored.(*ssa.Phi); isPhi {
						pos = p.Pos()
						expand(p, nil, nil, 0)
					}
				} else if stored != nil && ir.Strip(stored) == ssa.Value(hostCall) {
					pos = hostCall.Pos()
					for _, b := range host.Blocks {
						if ret, isRet := b.Instrs[len(b.Instrs)-1].(*ssa.Return); isRet && len(ret.Results) == 1 {
							expand(ret.Results[0], b, nil, 0)
						}
					}
				}
				if len(leaves) == 0 {
					c.Broken("C38.stateful", fn, "ErrCode of the CheckResponse", c.P.Rel(fn.Pos()), "the code sent is not decided from the ledger query")
					continue
				}
				want := map[string]string{}
				for _, lf := range leaves {
					k, okk := ir.ConstInt(lf.v)
					if !okk || lf.pred == nil {
						want["?"] = "non-constant"
						continue
					}
					pred := lf.pred
					// classify the predecessor by the dominating tests on the call's results
					cls := "fallthrough"
					for a := pred; a != nil; a = a.Idom() {
						if len(a.Instrs) == 0 {
							continue
						}
						iff, isIf := a.Instrs[len(a.Instrs)-1].(*ssa.If)
						if !isIf || !(a == pred || a.Dominates(pred)) {
							continue
						}
						onTrue := len(a.Succs) == 2 && (a.Succs[0] == pred || (a.Succs[0].Dominates(pred) && len(a.Succs[0].Preds) == 1))
						if a == pred {
							// edge directly from the If block to the phi block
							onTrue = a.Succs[0] == lf.join
						}
						if x, neq, ok := ir.NilCmp(iff.Cond); ok {
							if c2, idx := ir.CallOf(x); c2 == cl && idx == 1 {
								if onTrue == neq {
									cls = "err!=nil"
								}
								break
							}
						}
						if c2, idx := ir.CallOf(iff.Cond); c2 == cl && idx == 0 {
							if onTrue {
								cls = "exist"
							} else {
								cls = "not-exist"
							}
							break
						}
					}
					if old, had := want[cls]; had && old != sprintf("%d", k) {
						want["?"] = "two codes for " + cls
					}
					want[cls] = sprintf("%d", k)
				}
				dup, _ := c.P.Const(ir.Mod+"/errors", "ErrDuplicatedTx")
				unk, _ := c.P.Const(ir.Mod+"/errors", "ErrUnknown")
				noe, _ := c.P.Const(ir.Mod+"/errors", "ErrNoError")
				ok := dup != nil && unk != nil && noe != nil && want["exist"] == dup.ExactString() && want["err!=nil"] == unk.ExactString() && want["not-exist"] == noe.ExactString() && len(want) == 3
				c.Decide(ok, "C38.stateful", fn, "response ErrCode = {exist: ErrDuplicatedTx, query error: ErrUnknown, otherwise ErrNoError}", c.P.Rel(pos), sprintf("%v", want))
			}
		}
	}
}
