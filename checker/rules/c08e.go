package rules

import (
	"go/token"

	"golang.org/x/tools/go/ssa"

	"polyverif/ir"
)

// storedHashOffset: v is count(tree_size) × size (either operand order), written inline or returned by a
// module helper whose every return is that product over the helper's own argument (the helper's parameters
// are bound to the call's arguments while it is looked at).
func storedHashOffset(v ssa.Value, isCount, isSz func(ssa.Value) bool, depth int) bool {
	v = ir.Strip(v)
	if m, isM := v.(*ssa.BinOp); isM && m.Op == token.MUL {
		return (isCount(m.X) && isSz(m.Y)) || (isCount(m.Y) && isSz(m.X))
	}
	cl, isCall := v.(*ssa.Call)
	if !isCall || depth > 2 {
		return false
	}
	h := cl.Common().StaticCallee()
	if h == nil || len(h.Blocks) == 0 || !ir.InModule(h) || h.Signature.Results().Len() != 1 {
		return false
	}
	unbind := ir.BindParams(h, cl.Common().Args)
	defer unbind()
	n := 0
	for _, b := range h.Blocks {
		ret, isRet := b.Instrs[len(b.Instrs)-1].(*ssa.Return)
		if !isRet {
			continue
		}
		n++
		if !storedHashOffset(ret.Results[0], isCount, isSz, depth+1) {
			return false
		}
	}
	return n > 0
}
