package rules

import (
	"golang.org/x/tools/go/ssa"

	"polyverif/core"
	"polyverif/eng"
	"polyverif/ir"
)

// C34 (continued) — "blacklisted keys cannot register" and "each epoch change
// drops quitting and blacklisted members" both lean on ApproveCandidate being
// usable once per application: it trusts the existence of the PEER_APPLY record
// and checks neither the blacklist nor pool membership.  So every approved
// success path of ApproveCandidate deletes that record — for first-time keys and
// for keys that already own a PEER_INDEX alike.
func checkApplicationConsumed(c *core.Ctx) {
	const rule = "C34.application-consumed"
	fn := c.Fn(pkNM, "ApproveCandidate")
	ccsFn := c.Fn(pkNM, "CheckConsensusSigns")
	ccs := eng.Obj(c, pkNM, "CheckConsensusSigns")
	if fn == nil || ccs == nil || ccsFn == nil {
		return
	}
	sites, err := eng.KeySitesIn(c.P, fn, 2)
	if err != nil {
		c.Broken(rule, fn, "key sites", c.P.Rel(fn.Pos()), err.Error())
		return
	}
	var dels []ssa.CallInstruction
	for _, s := range sites {
		if s.Op == "Delete" && s.Shape.LeadingLit() == "peerApply" {
			dels = append(dels, s.TopCall)
		}
	}
	if len(dels) == 0 {
		c.Violate(rule, fn, "the approved application (PEER_APPLY‖key) is deleted", c.P.Rel(fn.Pos()), "no delete of the application record in ApproveCandidate: the approval can be replayed")
		return
	}
	notApproved := eng.PassEdgesThrough(fn, ir.BoolIs(ir.CallTo(ccs), false))
	if len(notApproved) == 0 {
		c.Broken(rule, fn, "CheckConsensusSigns test", c.P.Rel(fn.Pos()), "no test of the quorum result")
		return
	}
	eng.MustPassCall(c, rule, fn, "Delete(PEER_APPLY‖key)", func(ci ssa.CallInstruction) bool {
		for _, d := range dels {
			if ci == d {
				return true
			}
		}
		return false
	}, ir.SuccessSinks(fn), "success return after the quorum was reached", &eng.Opt{Cuts: notApproved, Fact: "CheckConsensusSigns returned true"})
}
