package rules

import (
	"strings"

	"golang.org/x/tools/go/ssa"

	"polyverif/core"
	"polyverif/ir"
)

// C36 (continued) — an approved registration / removal takes effect for EVERY
// address it lists.  In ApproveRegisterRelayer and ApproveRemoveRelayer the loop
// over the request's address list may not be left early: from inside the loop
// body the code after the loop is reachable only through the loop's own
// exhaustion test (no break), and no nil-error return sits inside the loop.
// (An iteration that skips one address but continues with the next is allowed:
// deleting or re-adding a key is idempotent.)
func checkRelayerListLoops(c *core.Ctx) {
	for _, name := range []string{"ApproveRegisterRelayer", "ApproveRemoveRelayer"} {
		fn := c.Fn(pkRM, name)
		if fn == nil {
			continue
		}
		host, loops, release := sliceLoopsVia(fn, func(v ssa.Value) bool { return isFieldNamed(v, "AddressList") })
		defer release()
		if host != fn {
			c.Attribute(host, fn)
		}
		if len(loops) == 0 {
			c.Broken("C36.whole-list", fn, "loop over the request's AddressList", c.P.Rel(fn.Pos()), "not found")
			continue
		}
		for _, lp := range loops {
			// region of the loop body
			region := map[*ssa.BasicBlock]bool{}
			var work = []*ssa.BasicBlock{lp.Body}
			for len(work) > 0 {
				b := work[len(work)-1]
				work = work[:len(work)-1]
				if region[b] || b == lp.Header || b == lp.Exit {
					continue
				}
				region[b] = true
				work = append(work, b.Succs...)
			}
			bad := ""
			for b := range region {
				for _, s := range b.Succs {
					if s == lp.Exit {
						bad = "the loop is left early (break) at " + c.P.Rel(b.Instrs[len(b.Instrs)-1].Pos())
					}
				}
				if r, ok := b.Instrs[len(b.Instrs)-1].(*ssa.Return); ok {
					last := r.Results[len(r.Results)-1]
					if ir.IsNilConst(last) {
						bad = "the loop returns success early at " + c.P.Rel(r.Pos())
					}
				}
			}
			// the body contains the storage operation keyed by the element
			nOps := 0
			for b := range region {
				for _, in := range b.Instrs {
					ci, ok := in.(ssa.CallInstruction)
					if !ok {
						continue
					}
					if o := ir.CalleeObj(ci); o != nil {
						n := strings.ToLower(o.Name())
						if strings.HasPrefix(n, "put") || strings.HasPrefix(n, "delete") {
							nOps++
						}
					}
				}
			}
			c.Decide(bad == "" && nOps >= 1, "C36.whole-list", fn, "every address of the approved list is processed: the list loop has no early exit", c.P.Rel(lp.Cond.Pos()), bad)
		}
	}
}
