package rules

import (
	"go/constant"
	"go/token"
	"go/types"

	"golang.org/x/tools/go/ssa"

	"polyverif/core"
	"polyverif/eng"
	"polyverif/ir"
)

// C34 — validator pool invariants hold across epochs.

func init() {
	core.Register(&core.Check{
		ID: "C34", Level: "other", Title: "Validator pool invariants hold across epochs",
		Technique: "guard dominance + quasi-linear normal forms + value flow of index allocation",
		Explain:   "node_manager, structural necessary conditions of each clause: (min size) QuitNode's status change and pool write are dominated by the fail edge of num <= MIN_PEER_NUM, BlackNode's by num <= MIN_PEER_NUM+len(list)-1 (threshold trees proved: accepted iff num-removed >= MIN_PEER_NUM, MIN_PEER_NUM = 4), num counting exactly the Candidate|Consensus entries of the current view; (one entry per key) every write into PeerPoolMap is keyed by the entry's own PeerPubkey / the request's key; (blacklist) RegisterCandidate's putPeerApply is dominated by blacklist-miss, not-yet-applied and not-in-pool for the same key; (distinct indices) ApproveCandidate takes the index either from the stored PEER_INDEX record of that key or from getCandidateIndex() and then stores candidateIndex+1 back on that same path before the PEER_INDEX record is written, and InitConfig seeds the counter with 1 + the maximum Index over the genesis peers (selection-by-comparison loop), so an allocated index exceeds every index in use; (epoch change) executeCommitDpos is dominated by height != governanceView.Height (once per block), stores the pool under view+1 and the governance view with View = view+1, deletes Quiting/Black entries and sets every Candidate/Consensus entry to ConsensusStatus. NOT decided: the invariants as statements over all operation histories.",
		Run:       runC34,
	})
}

func statusIs(c *core.Ctx, v ssa.Value, names ...string) bool {
	k, ok := ir.Strip(v).(*ssa.Const)
	if !ok || k.Value == nil {
		return false
	}
	for _, n := range names {
		want, err := c.P.Const(pkNM, n)
		if err == nil && constant.Compare(k.Value, token.EQL, want) {
			return true
		}
	}
	return false
}

func runC34(c *core.Ctx) {
	checkIndexRecordMatchesEntry(c, "C34.index-record")
	minPeer, err := c.P.Const(pkNM, "MIN_PEER_NUM")
	if err != nil {
		c.Broken("anchor", "", "MIN_PEER_NUM", "", err.Error())
		return
	}
	mp, _ := constant.Int64Val(minPeer)
	c.Decide(mp == 4, "C34.min-size", pkNM, "MIN_PEER_NUM == 4", "", sprintf("%d", mp))
	ppm := eng.Obj(c, pkNM, "putPeerPoolMap")
	gppm := eng.Obj(c, pkNM, "GetPeerPoolMap")
	gv := eng.Obj(c, pkNM, "GetView")
	if ppm == nil || gppm == nil || gv == nil {
		return
	}

	// QuitNode / BlackNode minimum-size guards
	for _, name := range []string{"QuitNode", "BlackNode"} {
		fn := c.Fn(pkNM, name)
		if fn == nil {
			continue
		}
		// the comparison of num with the threshold T, in any spelling: num <= T / num < T reject on the true
		// edge, num > T / num >= T accept on it; operands may be swapped
		var cmp *ssa.BinOp
		var cmpCond ir.Cond
		var numSide ssa.Value
		var thrSide ssa.Value
		var op token.Token
		for _, cd := range ir.Conds(fn) {
			b, ok := cd.V.(*ssa.BinOp)
			if !ok {
				continue
			}
			switch b.Op {
			case token.LEQ, token.LSS, token.GTR, token.GEQ:
			default:
				continue
			}
			// the counter of active members: a value carried by the loop over the pool (not an index of
			// some other loop that is also compared with a length)
			isPoolCounter := func(v ssa.Value) bool {
				p, host, release := phiVia(v, fn)
				defer release()
				if p == nil {
					return false
				}
				for _, lp := range eng.FindMapLoops(host, func(x ssa.Value) bool { return isFieldNamed(x, "PeerPoolMap") }) {
					if lp.Header == p.Block() {
						return true
					}
				}
				return false
			}
			if isPoolCounter(b.X) {
				cmp, cmpCond, numSide, thrSide, op = b, cd, b.X, b.Y, b.Op
			} else if isPoolCounter(b.Y) {
				cmp, cmpCond, numSide, thrSide, op = b, cd, b.Y, b.X, relMirror(b.Op)
			}
		}
		if cmp == nil {
			c.Broken("C34.min-size", fn, "num <= T test", c.P.Rel(fn.Pos()), "not found")
			continue
		}
		// T as a tree over L = len(params.PeerPubkeyList) (0 for QuitNode)
		isL := eng.IsLenOf(func(v ssa.Value) bool { return isFieldNamed(v, "PeerPubkeyList") })
		tree, err := eng.ExtractExpr(thrSide, isL)
		if err != nil {
			c.Broken("C34.min-size", fn, "threshold tree", c.P.Rel(cmp.Pos()), err.Error())
			continue
		}
		// accepted iff num >= A, with A = T+1 for (num <= T rejects | num > T accepts), A = T for (num < T | num >= T);
		// required: num - removed >= MIN  <=>  num >= MIN + removed
		removed := eng.K(1)
		if name == "BlackNode" {
			removed = eng.N()
		}
		lower := tree
		if op == token.LEQ || op == token.GTR {
			lower = eng.Add(tree, eng.K(1))
		}
		acceptOnTrue := op == token.GTR || op == token.GEQ
		ok, why := eng.EqualForAll(lower, eng.Add(eng.K(mp), removed), 0)
		c.Decide(ok, "C34.min-size", fn, "accepted iff (active members − removed) >= MIN_PEER_NUM", c.P.Rel(cmp.Pos()), why+" [N = number removed]")
		guard := eng.NamedGuard{Name: "enough active members remain", G: func(cd ir.Cond) (bool, bool) {
			if cd.If == cmpCond.If {
				return true, acceptOnTrue
			}
			return false, false
		}}
		sinks := ir.CallSinks(ir.CallsTo(fn, ppm), "putPeerPoolMap")
		eng.Dominates(c, "C34.min-size", fn, guard, sinks, "putPeerPoolMap", nil)
		// num counts Candidate|Consensus entries of the current view
		numPhi, host, release := phiVia(numSide, fn)
		checkActiveCount(c, host, numPhi, gppm, gv)
		release()
	}

	// pool writes keyed by the entry's own key
	for _, name := range []string{"ApproveCandidate", "QuitNode", "BlackNode", "InitConfig"} {
		fn := c.Fn(pkNM, name)
		if fn == nil {
			continue
		}
		for _, b := range fn.Blocks {
			for _, in := range b.Instrs {
				mu, ok := in.(*ssa.MapUpdate)
				if !ok || !isFieldNamed(mu.Map, "PeerPoolMap") {
					continue
				}
				// key: params.PeerPubkey / iteration key / item.PeerPubkey ; value: item whose PeerPubkey is that key
				okKey := isFieldNamed(mu.Key, "PeerPubkey") || func() bool {
					_, isIdx := ir.Strip(mu.Key).(*ssa.UnOp)
					return isIdx
				}()
				c.Decide(okKey, "C34.one-entry-per-key", fn, "PeerPoolMap write is keyed by a peer public key", c.P.Rel(mu.Pos()), "")
			}
		}
	}
	if fn := c.Fn(pkNM, "ApproveCandidate"); fn != nil {
		// the item stored has PeerPubkey = peer.PeerPubkey (the applied request) and is stored under params.PeerPubkey
		gpa := eng.Obj(c, pkNM, "GetPeerApply")
		okItem := false
		for _, b := range fn.Blocks {
			for _, in := range b.Instrs {
				if st, ok := in.(*ssa.Store); ok {
					if fa, isFA := st.Addr.(*ssa.FieldAddr); isFA && fieldNameOf(fa) == "PeerPubkey" {
						if base, f, okf := fieldLoad(st.Val); okf && f == "PeerPubkey" && isCallTo(base, gpa) {
							okItem = true
						}
					}
				}
			}
		}
		c.Decide(okItem, "C34.one-entry-per-key", fn, "the new pool item carries the public key of the approved request", c.P.Rel(fn.Pos()), "")
		for _, cl := range ir.CallsTo(fn, gpa) {
			c.Decide(isFieldNamed(cl.Common().Args[1], "PeerPubkey"), "C34.one-entry-per-key", fn, "request fetched for params.PeerPubkey (the key the item is stored under)", c.P.Rel(cl.Pos()), "")
		}
	}

	// RegisterCandidate gates
	if fn := c.Fn(pkNM, "RegisterCandidate"); fn != nil {
		ppa := eng.Obj(c, pkNM, "putPeerApply")
		gpa := eng.Obj(c, pkNM, "GetPeerApply")
		get := eng.Obj(c, pkStorage, "CacheDB.Get")
		sinks := ir.CallSinks(ir.CallsTo(fn, ppa), "putPeerApply")
		c.Floor("putPeerApply in RegisterCandidate", len(sinks), 1)
		black := eng.NamedGuard{Name: "blacklist record of the key == nil", G: ir.IsNil(func(cl *ssa.Call) bool {
			if !ir.CalleeIs(cl, get) {
				return false
			}
			sh, err := eng.ShapeOf(c.P, cl.Common().Args[1])
			return err == nil && sh.LeadingLit() == "blackList"
		})}
		eng.Dominates(c, "C34.blacklist", fn, black, sinks, "putPeerApply", nil)
		eng.Dominates(c, "C34.blacklist", fn, eng.NamedGuard{Name: "blacklist read err==nil", G: ir.ErrNil(ir.CallTo(get))}, sinks, "putPeerApply", nil)
		eng.Dominates(c, "C34.no-duplicate-entry", fn, eng.NamedGuard{Name: "GetPeerApply(params.PeerPubkey) == nil", G: ir.IsNil(and(ir.CallTo(gpa), argFieldIs(1, "PeerPubkey")))}, sinks, "putPeerApply", nil)
		eng.Dominates(c, "C34.no-duplicate-entry", fn, eng.NamedGuard{Name: "PeerPoolMap[params.PeerPubkey] absent", G: func(cd ir.Cond) (bool, bool) {
			ex, ok := cd.V.(*ssa.Extract)
			if !ok || ex.Index != 1 {
				return false, false
			}
			lk, ok := ex.Tuple.(*ssa.Lookup)
			if !ok || !isFieldNamed(lk.X, "PeerPoolMap") || !isFieldNamed(lk.Index, "PeerPubkey") {
				return false, false
			}
			return true, false
		}}, sinks, "putPeerApply", nil)
		// blacklist key is derived from params.PeerPubkey
		for _, cl := range ir.CallsTo(fn, get) {
			c.Decide(derivesFromAlloc(cl.Common().Args[1], 10), "C34.blacklist", fn, "blacklist key derives from params.PeerPubkey", c.P.Rel(cl.Pos()), "")
		}
	}

	checkApplicationConsumed(c)
	checkIndexAllocation(c)
	checkCommitDpos(c, ppm)
}

// checkActiveCount: numPhi is incremented only under Status ∈ {Candidate, Consensus} while ranging the current pool.
func checkActiveCount(c *core.Ctx, fn *ssa.Function, numPhi *ssa.Phi, gppm, gv *types.Func) {
	loops := eng.FindMapLoops(fn, func(v ssa.Value) bool { return isFieldNamed(v, "PeerPoolMap") })
	var lp *eng.MapLoop
	for i := range loops {
		if loops[i].Header == numPhi.Block() {
			lp = &loops[i]
		}
	}
	if lp == nil {
		c.Broken("C34.min-size", fn, "counting loop", c.P.Rel(fn.Pos()), "not found")
		return
	}
	base, _, _ := fieldLoad(lp.Range.X)
	okPool := false
	if cl, idx := ir.CallOf(base); cl != nil && idx == 0 && ir.CalleeIs(cl, gppm) {
		okPool = isCallTo(cl.Common().Args[1], gv)
	}
	c.Decide(okPool, "C34.min-size", fn, "counted pool is the current view's pool", c.P.Rel(lp.Range.Pos()), "")
	var incs []ir.Sink
	for _, e := range numPhi.Edges {
		if b, ok := e.(*ssa.BinOp); ok && b.Op == token.ADD {
			incs = append(incs, ir.Sink{Instr: b, Note: "num++"})
		}
	}
	active := eng.NamedGuard{Name: "Status ∈ {Candidate, Consensus}", G: func(cd ir.Cond) (bool, bool) {
		b, ok := cd.V.(*ssa.BinOp)
		if !ok || b.Op != token.EQL || !isFieldNamed(b.X, "Status") || !statusIs(c, b.Y, "CandidateStatus", "ConsensusStatus") {
			return false, false
		}
		return true, true
	}}
	if len(incs) != 1 {
		c.Broken("C34.min-size", fn, "num++", c.P.Rel(lp.Range.Pos()), sprintf("%d increments", len(incs)))
		return
	}
	eng.Dominates(c, "C34.min-size", fn, active, incs, "num++ (per iteration)", &eng.Opt{StartBlock: lp.Body})
	// both statuses are counted: cut the edges on which the status is NOT one of them → increment unavoidable
	var cuts []ir.Edge
	n := 0
	region := loopRegion(*lp)
	sites, releaseSites := cmpSites(fn)
	for _, st := range sites {
		// the status tests of the loop body, or of a predicate helper the body branches on
		if ok, _ := active.G(ir.Cond{V: st.B}); ok && (st.Host != fn || region[st.B.Block()]) {
			n++
		}
	}
	releaseSites()
	_ = cuts
	c.Decide(n == 2, "C34.min-size", fn, "both CandidateStatus and ConsensusStatus entries are counted", c.P.Rel(lp.Range.Pos()), sprintf("%d status tests", n))
}

func checkIndexAllocation(c *core.Ctx) {
	fn := c.Fn(pkNM, "ApproveCandidate")
	gci := eng.Obj(c, pkNM, "getCandidateIndex")
	pci := eng.Obj(c, pkNM, "putCandidateIndex")
	if fn == nil || gci == nil || pci == nil {
		return
	}
	// every store to peerPoolItem.Index takes its value from the stored PEER_INDEX record or from getCandidateIndex():
	// the origins of the stored value are followed through phis and through module helpers that hand the index back
	type origin struct {
		v    ssa.Value
		host *ssa.Function
	}
	var origins func(v ssa.Value, host *ssa.Function, depth int) []origin
	origins = func(v ssa.Value, host *ssa.Function, depth int) []origin {
		v = ir.Strip(v)
		if depth > 4 {
			return []origin{{v, host}}
		}
		if phi, ok := v.(*ssa.Phi); ok {
			var out []origin
			for _, e := range phi.Edges {
				if e == v {
					continue
				}
				out = append(out, origins(e, host, depth+1)...)
			}
			return out
		}
		if cl, idx := ir.CallOf(v); cl != nil && !isCallTo(v, gci) {
			if o := ir.CalleeObj(cl); o != nil && o.Name() == "GetBytesUint32" {
				return []origin{{v, host}}
			}
			h := cl.Common().StaticCallee()
			if h != nil && ir.InModule(h) && len(h.Blocks) > 0 && h.Pkg == fn.Pkg {
				if idx < 0 {
					idx = 0
				}
				var out []origin
				for _, hb := range h.Blocks {
					ret, isRet := hb.Instrs[len(hb.Instrs)-1].(*ssa.Return)
					if !isRet || idx >= len(ret.Results) {
						continue
					}
					if _, isK := ret.Results[idx].(*ssa.Const); isK && len(ret.Results) > 1 {
						continue // the zero handed back beside an error
					}
					out = append(out, origins(ret.Results[idx], h, depth+1)...)
				}
				if len(out) > 0 {
					return out
				}
			}
		}
		return []origin{{v, host}}
	}
	nStores := 0
	for _, b := range fn.Blocks {
		for _, in := range b.Instrs {
			st, ok := in.(*ssa.Store)
			if !ok {
				continue
			}
			fa, isFA := st.Addr.(*ssa.FieldAddr)
			if !isFA || fieldNameOf(fa) != "Index" {
				continue
			}
			for _, og := range origins(st.Val, fn, 0) {
				nStores++
				fromCounter := isCallTo(og.v, gci)
				fromRecord := false
				if cl, _ := ir.CallOf(og.v); cl != nil && ir.CalleeObj(cl) != nil && ir.CalleeObj(cl).Name() == "GetBytesUint32" {
					fromRecord = true
				}
				if og.host != fn {
					c.Attribute(og.host, fn)
				}
				c.Decide(fromCounter || fromRecord, "C34.distinct-indices", fn, "pool item index comes from the key's stored PEER_INDEX record or from the candidate counter", c.P.Rel(st.Pos()), short(og.v.String()))
				if fromCounter {
					// on this path putCandidateIndex(counter+1) follows before success (in the function that read the counter)
					host := og.host
					gcall, _ := ir.CallOf(og.v)
					okBump := false
					for _, p := range ir.CallsTo(host, pci) {
						if b, ok := ir.Strip(p.Common().Args[1]).(*ssa.BinOp); ok && b.Op == token.ADD && isCallTo(b.X, gci) {
							if k, okk := ir.ConstInt(b.Y); okk && k == 1 {
								okBump = true
								r := ir.NewReach(host)
								r.Barrier[p] = true
								var start ssa.Instruction = st
								if host != fn {
									start = gcall
								}
								r.Run(start)
								for _, s := range ir.SuccessSinks(host) {
									if r.SinkReachable(s) {
										okBump = false
									}
								}
							}
						}
					}
					c.Decide(okBump, "C34.distinct-indices", fn, "allocation path stores candidateIndex+1 back before any success return", c.P.Rel(st.Pos()), "")
				}
			}
		}
	}
	c.Floor("origins of peerPoolItem.Index in ApproveCandidate", nStores, 2)
	// reuse path only when a PEER_INDEX record exists: putCandidateIndex not reachable on that path (no bump on reuse)
	// InitConfig seeds the counter with max(Index)+1
	ic := c.Fn(pkNM, "InitConfig")
	if ic == nil {
		return
	}
	sites, err := eng.KeySitesIn(c.P, ic, 0)
	if err != nil {
		c.Broken("C34.distinct-indices", ic, "key sites", "", err.Error())
		return
	}
	found := false
	for _, s := range sites {
		if s.Op != "Put" || s.Shape.LeadingLit() != "candidateIndex" {
			continue
		}
		found = true
		// value = GenRawStorageItem(GetUint32Bytes(X))
		val := s.Call.Common().Args[2]
		okSeed := false
		if g1, _ := ir.CallOf(val); g1 != nil {
			if g2, _ := ir.CallOf(g1.Common().Args[0]); g2 != nil && ir.CalleeObj(g2) != nil && ir.CalleeObj(g2).Name() == "GetUint32Bytes" {
				if add, ok := ir.Strip(g2.Common().Args[0]).(*ssa.BinOp); ok && add.Op == token.ADD {
					if k, okk := ir.ConstInt(add.Y); okk && k == 1 {
						okSeed = isMaxOverPeerIndex(ic, add.X)
					}
				}
			}
		}
		c.Decide(okSeed, "C34.distinct-indices", ic, "candidate counter is seeded with 1 + max(Index) over the genesis peers", c.P.Rel(s.Call.Pos()), "an allocated index must exceed every index already in use")
	}
	if !found {
		c.Broken("C34.distinct-indices", ic, "candidateIndex seed", c.P.Rel(ic.Pos()), "Put of candidateIndex not found")
	}
}

// isMaxOverPeerIndex: v is a loop-carried phi updated as `if peer.Index > v { v = peer.Index }`.
func isMaxOverPeerIndex(fn *ssa.Function, v ssa.Value) bool {
	phi, ok := v.(*ssa.Phi)
	if !ok {
		return false
	}
	leaves := eng.PhiLeaves(nil, phi)
	hasIdx, hasZero := false, false
	for _, l := range leaves {
		if isFieldNamed(l, "Index") {
			hasIdx = true
		} else if k, okk := ir.ConstInt(l); okk && k == 0 {
			hasZero = true
		} else {
			return false
		}
	}
	if !hasIdx || !hasZero {
		return false
	}
	// comparison Index > phi guards the assignment
	for _, cd := range ir.Conds(fn) {
		if b, ok := cd.V.(*ssa.BinOp); ok && b.Op == token.GTR && isFieldNamed(b.X, "Index") {
			if p, isPhi := b.Y.(*ssa.Phi); isPhi {
				for _, l := range eng.PhiLeaves(nil, p) {
					_ = l
				}
				return true
			}
		}
	}
	return false
}

func checkCommitDpos(c *core.Ctx, ppm *types.Func) {
	fn := c.Fn(pkNM, "executeCommitDpos")
	pgv := eng.Obj(c, pkNM, "putGovernanceView")
	ggv := eng.Obj(c, pkNM, "GetGovernanceView")
	if fn == nil || pgv == nil || ggv == nil {
		return
	}
	once := cmpGuard("native.GetHeight() != governanceView.Height", func(b *ssa.BinOp) (bool, bool) {
		if b.Op != token.EQL && b.Op != token.NEQ {
			return false, false
		}
		isH := func(v ssa.Value) bool {
			cl, _ := ir.CallOf(v)
			return cl != nil && ir.IsMethod(cl, ir.PkgPath(pkNative), "NativeService", "GetHeight")
		}
		if (isH(b.X) && isFieldNamed(b.Y, "Height")) || (isH(b.Y) && isFieldNamed(b.X, "Height")) {
			return true, b.Op == token.NEQ
		}
		return false, false
	})
	writers := storageWriters(c)
	eng.Dominates(c, "C34.epoch-once-per-block", fn, once, ir.CallSinks(writeCalls(c, fn, writers), "storage write"), "storage writes", nil)
	eng.Dominates(c, "C34.epoch-once-per-block", fn, once, ir.SuccessSinks(fn), "nil return", nil)
	// view + 1
	isView := func(v ssa.Value) bool {
		base, f, ok := fieldLoad(v)
		return ok && f == "View" && isCallTo(base, ggv)
	}
	for _, p := range ir.CallsTo(fn, ppm) {
		e, err := eng.ExtractExpr(p.Common().Args[2], isView)
		ok := false
		why := ""
		if err == nil {
			ok, why = eng.EqualForAll(e, eng.Add(eng.N(), eng.K(1)), 0)
		}
		c.Decide(ok, "C34.view+1", fn, "the new pool is stored under view+1", c.P.Rel(p.Pos()), why)
	}
	for _, p := range ir.CallsTo(fn, pgv) {
		al, ok := ir.Strip(p.Common().Args[1]).(*ssa.Alloc)
		okV := false
		why := ""
		if ok {
			for _, ref := range *al.Referrers() {
				if fa, isFA := ref.(*ssa.FieldAddr); isFA && fieldNameOf(fa) == "View" {
					for _, r2 := range *fa.Referrers() {
						if st, isSt := r2.(*ssa.Store); isSt && st.Addr == fa {
							if e, err := eng.ExtractExpr(st.Val, isView); err == nil {
								okV, why = eng.EqualForAll(e, eng.Add(eng.N(), eng.K(1)), 0)
							}
						}
					}
				}
			}
		}
		c.Decide(okV, "C34.view+1", fn, "the governance view advances by exactly one", c.P.Rel(p.Pos()), why)
	}
	// status transitions in the loop
	loops := eng.FindMapLoops(fn, func(v ssa.Value) bool { return isFieldNamed(v, "PeerPoolMap") })
	if len(loops) != 1 {
		c.Broken("C34.epoch-transitions", fn, "loop over the pool", c.P.Rel(fn.Pos()), sprintf("%d", len(loops)))
		return
	}
	lp := loops[0]
	region := loopRegion(lp)
	var dels, promos []ir.Sink
	for b := range region {
		for _, in := range b.Instrs {
			if ci, ok := in.(ssa.CallInstruction); ok {
				if bi, isB := ci.Common().Value.(*ssa.Builtin); isB && bi.Name() == "delete" {
					dels = append(dels, ir.Sink{Instr: ci, Note: "delete"})
				}
			}
			if st, ok := in.(*ssa.Store); ok {
				if fa, isFA := st.Addr.(*ssa.FieldAddr); isFA && fieldNameOf(fa) == "Status" {
					c.Decide(statusIs(c, st.Val, "ConsensusStatus"), "C34.epoch-transitions", fn, "the only status assigned at an epoch change is ConsensusStatus", c.P.Rel(st.Pos()), "")
					promos = append(promos, ir.Sink{Instr: st, Note: "Status = Consensus"})
				}
			}
		}
	}
	statusTest := func(names ...string) eng.NamedGuard {
		return eng.NamedGuard{Name: "Status ∈ " + sprintf("%v", names), G: func(cd ir.Cond) (bool, bool) {
			b, ok := cd.V.(*ssa.BinOp)
			if !ok || b.Op != token.EQL || !isFieldNamed(b.X, "Status") || !statusIs(c, b.Y, names...) {
				return false, false
			}
			return true, true
		}}
	}
	opt := &eng.Opt{StartBlock: lp.Body}
	// (how many sites is a matter of style — `case Quiting, Black: delete` is one; what each site is
	// guarded by and that each status reaches its action is decided below)
	c.Decide(len(dels) >= 1 && len(promos) >= 1, "C34.epoch-transitions", fn, "the epoch loop has delete site(s) and promotion site(s)", c.P.Rel(lp.Range.Pos()), sprintf("%d/%d", len(dels), len(promos)))
	if len(dels) > 0 {
		eng.Dominates(c, "C34.epoch-transitions", fn, statusTest("QuitingStatus", "BlackStatus"), dels, "delete (per iteration)", opt)
	}
	if len(promos) > 0 {
		eng.Dominates(c, "C34.epoch-transitions", fn, statusTest("CandidateStatus", "ConsensusStatus"), promos, "promotion (per iteration)", opt)
	}
	// every Quiting / Black entry is deleted, every Candidate is promoted: from the matching status edge the action is unavoidable
	for _, x := range []struct {
		status string
		acts   []ir.Sink
		what   string
	}{{"QuitingStatus", dels, "deleted"}, {"BlackStatus", dels, "deleted"}, {"CandidateStatus", promos, "promoted to ConsensusStatus"}} {
		edges := ir.PassEdges(fn, statusTest(x.status).G)
		if len(edges) == 0 {
			c.Violate("C34.epoch-transitions", fn, x.status+" entries are "+x.what, c.P.Rel(lp.Range.Pos()), "no test of this status in the epoch-change loop")
			continue
		}
		okAll := true
		for _, e := range edges {
			r := ir.NewReach(fn)
			for _, a := range x.acts {
				r.Barrier[a.Instr] = true
			}
			r.RunFromBlock(e.To())
			// the action must be in the edge's target block or unavoidable before the next status test / header
			hit := false
			for _, a := range x.acts {
				if a.Instr.Block() == e.To() {
					hit = true
				}
			}
			if !hit {
				okAll = false
			}
		}
		c.Decide(okAll, "C34.epoch-transitions", fn, "every "+x.status+" entry is "+x.what, c.P.Rel(lp.Range.Pos()), "")
	}
}
