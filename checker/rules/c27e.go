package rules

import (
	"go/token"

	"golang.org/x/tools/go/ssa"

	"polyverif/core"
	"polyverif/eng"
	"polyverif/ir"
)

// C27 (continued) — the BTC height index after a reorganisation.
// ReIndexHeaderHeight removes the index entries of the abandoned branch that lie
// ABOVE the new tip and rewrites the entries from the new tip downwards.  An
// entry at height i may be deleted only under i > newBlock.Height (strictly):
// with >= the entry of the new best header itself is removed whenever the new
// tip is not higher than the old one, leaving a gap at the head of the chain.
func checkBtcReindexKeepsNewTip(c *core.Ctx) {
	const rule = "C27.btc-reindex"
	fn := c.Fn("native/service/header_sync/btc", "ReIndexHeaderHeight")
	if fn == nil {
		return
	}
	nb := paramByName(fn, "newBlock")
	sites, err := eng.KeySitesIn(c.P, fn, 1)
	if err != nil || nb == nil {
		c.Broken(rule, fn, "key sites / newBlock parameter", c.P.Rel(fn.Pos()), "not found")
		return
	}
	isNewHeight := func(v ssa.Value) bool {
		b, f, ok := fieldLoad(v)
		return ok && f == "Height" && ir.Strip(b) == ssa.Value(nb)
	}
	n := 0
	for _, s := range sites {
		if s.Op != "Delete" || s.Shape.LeadingLit() != "headerIndex" {
			continue
		}
		var idx ssa.Value
		for _, a := range s.Shape {
			if a.Kind == eng.AFix && a.N == 4 && a.Val != nil {
				idx = a.Val
			}
		}
		if idx == nil {
			c.Broken(rule, fn, "height component of the deleted index key", c.P.Rel(s.Call.Pos()), s.Shape.String())
			continue
		}
		n++
		iv := idx
		eng.Dominates(c, rule, fn, relGuard("deleted height > newBlock.Height", func(v ssa.Value) bool { return v == iv || ir.Strip(v) == ir.Strip(iv) }, isNewHeight, token.GTR),
			[]ir.Sink{{Instr: s.TopCall, Note: "delete of a height-index entry"}}, "delete of a height-index entry", nil)
	}
	c.Floor("height-index deletions in btc ReIndexHeaderHeight", n, 1)
}
