package rules

import (
	"golang.org/x/tools/go/ssa"

	"polyverif/core"
	"polyverif/eng"
	"polyverif/ir"
)

// C11 (continued) — every write or delete issued at a layer is RECORDED in that
// layer's buffer, unconditionally.  If a mutator consulted the current contents
// before recording (e.g. "skip the tombstone when the key is absent anyway"),
// whether a key appears in the block's write set — and so the digest — would
// depend on what the layer happened to hold when the call arrived, i.e. on the
// order of writes and on transaction boundaries, not only on the net effect.
func checkLayerMutatorsUnconditional(c *core.Ctx) {
	for _, spec := range []struct{ pkg, fn, alt, callee string }{
		{pkOverlayDB, "OverlayDB.Put", "", "Put"},
		{pkOverlayDB, "OverlayDB.Delete", "", "Delete"},
		{pkNatStorage, "CacheDB.put", "CacheDB.Put", "Put"},
		{pkNatStorage, "CacheDB.delete", "CacheDB.Delete", "Delete"},
	} {
		var fn *ssa.Function
		if spec.alt == "" {
			fn = c.Fn(spec.pkg, spec.fn)
		} else {
			fn = c.FnAny(spec.pkg, spec.fn, spec.alt)
		}
		if fn == nil {
			continue
		}
		rec := ir.Calls(fn, func(ci ssa.CallInstruction) bool {
			o := ir.CalleeObj(ci)
			return o != nil && o.Name() == spec.callee && recvNamedCI(ci, "MemDB")
		})
		if len(rec) != 1 {
			c.Violate("C11.net-effect", fn, "the mutation is recorded in the layer's MemDB exactly once", c.P.Rel(fn.Pos()), sprintf("%d MemDB.%s call(s)", len(rec), spec.callee))
			continue
		}
		var rets []ir.Sink
		for _, b := range fn.Blocks {
			if len(b.Instrs) > 0 {
				if r, ok := b.Instrs[len(b.Instrs)-1].(*ssa.Return); ok && b != fn.Recover {
					rets = append(rets, ir.Sink{Instr: r, Note: "return"})
				}
			}
		}
		eng.MustPassCall(c, "C11.net-effect", fn, "MemDB."+spec.callee+" (record in the layer)", func(ci ssa.CallInstruction) bool { return ci == rec[0] }, rets, "return", nil)
		// and the layer is not consulted first
		reads := ir.Calls(fn, func(ci ssa.CallInstruction) bool {
			o := ir.CalleeObj(ci)
			return o != nil && (o.Name() == "Get" || o.Name() == "Find" || o.Name() == "NewIterator")
		})
		c.Decide(len(reads) == 0, "C11.net-effect", fn, "recording does not depend on the layer's (or the backing store's) current contents", c.P.Rel(fn.Pos()), sprintf("%d read(s) before recording", len(reads)))
	}
	checkCommitForwardsAll(c)
	checkLayerReads(c, "", "C11.reads-record-nothing")
}

// checkCommitForwardsAll: CacheDB.Commit carries a successful transaction's
// cache into the block overlay — the block's write set.  Every cached entry must
// be forwarded (Put, or Delete for an empty value) without looking at what the
// overlay currently shows: "skip the Put when the visible value is already the
// same" makes membership in the write set depend on earlier state.
func checkCommitForwardsAll(c *core.Ctx) {
	const rule = "C11.net-effect"
	fn := c.Fn(pkNatStorage, "CacheDB.Commit")
	if fn == nil {
		return
	}
	isFwd := func(ci ssa.CallInstruction) bool {
		o := ir.CalleeObj(ci)
		return o != nil && (o.Name() == "Put" || o.Name() == "Delete") && recvNamedCI(ci, "OverlayDB")
	}
	nFwd, nCb := 0, 0
	for _, f := range ir.WithClosures(fn) {
		reads := ir.Calls(f, func(ci ssa.CallInstruction) bool {
			o := ir.CalleeObj(ci)
			return o != nil && (o.Name() == "Get" || o.Name() == "Find" || o.Name() == "NewIterator")
		})
		c.Decide(len(reads) == 0, rule, f, "forwarding to the block overlay does not consult current contents", c.P.Rel(f.Pos()), sprintf("%d read(s)", len(reads)))
		if f == fn {
			continue
		}
		nCb++
		nFwd += len(ir.Calls(f, isFwd))
		var rets []ir.Sink
		for _, b := range f.Blocks {
			if len(b.Instrs) > 0 {
				if r, ok := b.Instrs[len(b.Instrs)-1].(*ssa.Return); ok && b != f.Recover {
					rets = append(rets, ir.Sink{Instr: r, Note: "return"})
				}
			}
		}
		eng.MustPassCall(c, rule, f, "OverlayDB.Put / OverlayDB.Delete (forward the entry)", isFwd, rets, "return of the per-entry callback", nil)
	}
	c.Floor("per-entry callbacks in CacheDB.Commit", nCb, 1)
	c.Floor("forwarding calls in CacheDB.Commit", nFwd, 2)
}
