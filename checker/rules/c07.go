package rules

import (
	"go/token"
	"go/types"
	"strings"

	"golang.org/x/tools/go/ssa"

	"polyverif/core"
	"polyverif/eng"
	"polyverif/ir"
)

// C07 — Merkle proof verifiers are sound.

func init() {
	core.Register(&core.Check{
		ID: "C07", Level: "other", Title: "Merkle proof verifiers are sound",
		Technique: "hash-input shape extraction (domain tags and operand order), guard dominance with value identity on proof indices, loop-exit conditions, decision table of the position flag",
		Explain:   "Structural necessary conditions on the SSA of package merkle. (Domain separation) hash_leaf and HashLeaf hash 0x00‖data, hash_children and HashChildren hash 0x01‖left‖right (in that operand order); the four agree pairwise and the tags differ, so no leaf pre-image is a node pre-image. (Inclusion) VerifyLeafHashInclusion returns nil only after tree_size > leaf_index, calculate_root_hash_from_audit_path err==nil and calculated == root_hash on its own parameters. calculate_root_hash_from_audit_path: every audit_path[i] read is dominated by i < len(audit_path) on the same SSA value i; the hash is returned only after the level walk ended because last_node reached 0 (no other loop exit) and after pos >= len(audit_path) fails to be '<' (proof too long rejected); the sibling goes left exactly under node_index%2==1 and right under node_index%2!=1 ∧ node_index < last_node; pos advances by exactly one per sibling consumed and both indices are halved on every level. (Consistency) VerifyConsistency: every proof[i] read is dominated by i < len(proof) on the same value; the final nil is dominated by new_hash == new_root, old_hash == old_root and pos == len(proof); the two early nil returns (equal roots; empty old tree) are frozen as accepted by design. (Path proofs) MerkleProve returns the value only after bytes.Equal(fold, root), the fold starts from HashLeaf(value) of the value it returns, each iteration reads flag and sibling under !eof, the sibling goes left exactly when flag==LEFT and right exactly when flag==RIGHT (any other flag must be rejected). NOT decided: that the index arithmetic reconstructs the RFC 6962 tree for every (index, size) — a numeric property; SHA-256 collision resistance is assumed by the property.",
		Run:       runC07,
	})
}

// hashShape: for a function returning sha256.Sum256(tag ‖ a ‖ b …) report tag and the operand names in order.
func hashShape(fn *ssa.Function) (tag int64, operands []string, ok bool) {
	var sum *ssa.Call
	for _, ci := range ir.Calls(fn, func(ci ssa.CallInstruction) bool { return ir.IsPkgFunc(ci, "crypto/sha256", "Sum256") }) {
		sum, _ = ci.(*ssa.Call)
	}
	if sum == nil {
		return 0, nil, false
	}
	v := sum.Common().Args[0]
	var chain []ssa.Value
	for i := 0; i < 8; i++ {
		cl, isCall := v.(*ssa.Call)
		if !isCall {
			break
		}
		bi, isB := cl.Common().Value.(*ssa.Builtin)
		if !isB || bi.Name() != "append" {
			return 0, nil, false
		}
		chain = append([]ssa.Value{cl.Common().Args[1]}, chain...)
		v = cl.Common().Args[0]
	}
	// v: slice of a [1]byte literal holding the tag
	sl, isSl := v.(*ssa.Slice)
	if !isSl {
		return 0, nil, false
	}
	al, isAl := sl.X.(*ssa.Alloc)
	if !isAl || !strings.Contains(al.Type().String(), "[1]") || al.Referrers() == nil {
		return 0, nil, false
	}
	found := false
	for _, r := range *al.Referrers() {
		if ia, isIa := r.(*ssa.IndexAddr); isIa && ia.Referrers() != nil {
			for _, u := range *ia.Referrers() {
				if st, isSt := u.(*ssa.Store); isSt {
					if k, okk := ir.ConstInt(st.Val); okk {
						tag, found = k, true
					}
				}
			}
		}
	}
	if !found {
		return 0, nil, false
	}
	for _, a := range chain {
		name := "?"
		x := a
		if s2, isS := x.(*ssa.Slice); isS {
			x = s2.X
		}
		if al2, isA := x.(*ssa.Alloc); isA {
			if sv := ir.SingleStore(al2); sv != nil {
				x = sv
			}
		}
		if p, isP := x.(*ssa.Parameter); isP {
			name = p.Name()
		}
		operands = append(operands, name)
	}
	return tag, operands, true
}

// indexReads: loads slice[i] for the given slice parameter.
func indexReads(fn *ssa.Function, slice *ssa.Parameter) []*ssa.IndexAddr {
	var out []*ssa.IndexAddr
	for _, b := range fn.Blocks {
		for _, in := range b.Instrs {
			if ia, ok := in.(*ssa.IndexAddr); ok && ia.X == ssa.Value(slice) {
				out = append(out, ia)
			}
		}
	}
	return out
}

func paramByName(fn *ssa.Function, name string) *ssa.Parameter {
	for _, p := range fn.Params {
		if p.Name() == name {
			return p
		}
	}
	return nil
}

func isLenOfParam(p *ssa.Parameter) func(ssa.Value) bool {
	return func(v ssa.Value) bool {
		cl, ok := ir.Strip(v).(*ssa.Call)
		if !ok {
			return false
		}
		b, ok := cl.Common().Value.(*ssa.Builtin)
		return ok && b.Name() == "len" && ir.Strip(cl.Common().Args[0]) == ssa.Value(p)
	}
}

func runC07(c *core.Ctx) {
	pkM := "merkle"
	// ---- domain separation
	type hs struct {
		name string
		tag  int64
		ops  []string
	}
	var shapes []hs
	for _, n := range []string{"TreeHasher.hash_leaf", "HashLeaf", "TreeHasher.hash_children", "HashChildren"} {
		fn := c.Fn(pkM, n)
		if fn == nil {
			return
		}
		tag, ops, ok := hashShape(fn)
		if !ok {
			// a pure delegate (`return HashLeaf(data)`): the shape is the delegate's, with the
			// parameters passed through in order
			if d := pureDelegate(fn); d != nil {
				tag, ops, ok = hashShape(d)
			}
		}
		if !ok {
			c.Broken("C07.domain-separation", fn, "sha256.Sum256(tag ‖ operands)", c.P.Rel(fn.Pos()), "shape not recognised")
			return
		}
		shapes = append(shapes, hs{n, tag, ops})
		c.Touch(fn)
	}
	leafOK := shapes[0].tag == 0 && shapes[1].tag == 0 && strings.Join(shapes[0].ops, ",") == "data" && strings.Join(shapes[1].ops, ",") == "data"
	nodeOK := shapes[2].tag == 1 && shapes[3].tag == 1 && strings.Join(shapes[2].ops, ",") == "left,right" && strings.Join(shapes[3].ops, ",") == "left,right"
	c.Decide(leafOK, "C07.domain-separation", "merkle.hash_leaf/HashLeaf", "leaf hash = SHA256(0x00 ‖ data) in both implementations", "", sprintf("%v", shapes[:2]))
	c.Decide(nodeOK, "C07.domain-separation", "merkle.hash_children/HashChildren", "node hash = SHA256(0x01 ‖ left ‖ right) in both implementations", "", sprintf("%v", shapes[2:]))
	c.Decide(shapes[0].tag != shapes[2].tag && shapes[1].tag != shapes[3].tag, "C07.domain-separation", "merkle", "leaf and node tags differ", "", "")

	hc := eng.Obj(c, pkM, "TreeHasher.hash_children")

	// ---- inclusion
	if fn := c.Fn(pkM, "MerkleVerifier.VerifyLeafHashInclusion"); fn != nil {
		succ := ir.SuccessSinks(fn)
		calc := eng.Obj(c, pkM, "MerkleVerifier.calculate_root_hash_from_audit_path")
		ts, li, rh := paramByName(fn, "tree_size"), paramByName(fn, "leaf_index"), paramByName(fn, "root_hash")
		is := func(p *ssa.Parameter) func(ssa.Value) bool {
			return func(v ssa.Value) bool { return p != nil && ir.Strip(v) == ssa.Value(p) }
		}
		eng.Dominates(c, "C07.inclusion", fn, relGuard("tree_size > leaf_index", is(ts), is(li), token.GTR), succ, "nil return", nil)
		if calc != nil {
			eng.Dominates(c, "C07.inclusion", fn, eng.NamedGuard{Name: "calculate_root_hash_from_audit_path(leaf_hash, leaf_index, proof, tree_size) err==nil", G: ir.ErrNil(func(x *ssa.Call) bool {
				if !ir.CalleeIs(x, calc) {
					return false
				}
				a := x.Common().Args
				return ir.Strip(a[1]) == ssa.Value(paramByName(fn, "leaf_hash")) && ir.Strip(a[2]) == ssa.Value(li) && ir.Strip(a[3]) == ssa.Value(paramByName(fn, "proof")) && ir.Strip(a[4]) == ssa.Value(ts)
			})}, succ, "nil return", nil)
			eng.Dominates(c, "C07.inclusion", fn, relGuard("calculated root == root_hash", func(v ssa.Value) bool {
				cl, i := ir.CallOf(v)
				return cl != nil && i == 0 && ir.CalleeIs(cl, calc)
			}, is(rh), token.EQL), succ, "nil return", nil)
		}
	}
	if fn := c.Fn(pkM, "MerkleVerifier.calculate_root_hash_from_audit_path"); fn != nil && hc != nil {
		ap := paramByName(fn, "audit_path")
		reads := indexReads(fn, ap)
		c.Floor("audit_path reads", len(reads), 1)
		for i, ia := range reads {
			idx := ia.Index
			eng.Dominates(c, "C07.inclusion", fn, relGuard(sprintf("index #%d < len(audit_path)", i+1), func(v ssa.Value) bool { return v == idx }, isLenOfParam(ap), token.LSS),
				[]ir.Sink{{Instr: ia, Note: "audit_path read"}}, sprintf("audit_path read #%d", i+1), nil)
		}
		// success returns
		var succ []ir.Sink
		for _, b := range fn.Blocks {
			for _, in := range b.Instrs {
				if r, ok := in.(*ssa.Return); ok && len(r.Results) == 2 && ir.IsNilConst(r.Results[1]) {
					succ = append(succ, ir.Sink{Instr: r, Note: "hash returned"})
				}
			}
		}
		c.Floor("success returns of calculate_root_hash_from_audit_path", len(succ), 1)
		// the level loop: header tests last_node > 0
		var loopIf *ssa.If
		var lastPhi, nodePhi, posPhi *ssa.Phi
		for _, cd := range ir.Conds(fn) {
			b, ok := cd.V.(*ssa.BinOp)
			if !ok {
				continue
			}
			// last_node > 0 in any exact spelling whose true edge continues the walk (!= 0 on an unsigned, >= 1, 0 < x)
			subj, posWhenTrue, okp := positiveTest(b)
			p, isPhi := subj.(*ssa.Phi)
			if okp && posWhenTrue && isPhi && p.Comment == "last_node" {
				loopIf, lastPhi = cd.If, p
			}
		}
		if loopIf == nil {
			c.Broken("C07.inclusion", fn, "level loop `for last_node > 0`", c.P.Rel(fn.Pos()), "not found (the walk must cover every level implied by tree_size)")
		} else {
			for _, in := range loopIf.Block().Instrs {
				if p, ok := in.(*ssa.Phi); ok {
					switch p.Comment {
					case "node_index":
						nodePhi = p
					case "pos":
						posPhi = p
					}
				}
			}
			// the loop header's only exit is last_node > 0 failing, and success passes it
			eng.Dominates(c, "C07.inclusion", fn, eng.NamedGuard{Name: "level walk ended with last_node == 0", G: func(cd ir.Cond) (bool, bool) { return cd.If == loopIf, false }}, succ, "hash returned", nil)
			// no other way out of the loop to the success return: cut the exit edge, success must be unreachable
			r := ir.NewReach(fn).CutEdges([]ir.Edge{{From: loopIf.Block(), Idx: 1}}).Run(nil)
			okOnly := true
			for _, s := range succ {
				if r.SinkReachable(s) {
					okOnly = false
				}
			}
			c.Decide(okOnly, "C07.inclusion", fn, "the level loop has no other exit to success", c.P.Rel(loopIf.Cond.Pos()), "")
			// the loop condition is exactly last_node > 0 (not weakened by a conjunct): the body is entered directly from the header
			body := loopIf.Block().Succs[0]
			c.Decide(len(body.Preds) == 1, "C07.inclusion", fn, "the walk continues whenever last_node > 0", c.P.Rel(loopIf.Cond.Pos()), "")
			if posPhi != nil {
				eng.Dominates(c, "C07.inclusion", fn, relGuard("pos >= len(audit_path) after the walk (proof too long rejected)", func(v ssa.Value) bool { return v == ssa.Value(posPhi) }, isLenOfParam(ap), token.GEQ), succ, "hash returned", nil)
			}
			// halving
			halves := func(p *ssa.Phi) bool {
				if p == nil {
					return false
				}
				for i, e := range p.Edges {
					if p.Block().Preds[i].Dominates(loopIf.Block()) && p.Block().Preds[i] != loopIf.Block() {
						continue
					}
					q, ok := e.(*ssa.BinOp)
					if !ok || (q.Op != token.QUO && q.Op != token.SHR) || q.X != ssa.Value(p) {
						return false
					}
					want := int64(2) // x / 2
					if q.Op == token.SHR {
						want = 1 // x >> 1
					}
					if k, okk := ir.ConstInt(q.Y); !okk || k != want {
						return false
					}
				}
				return true
			}
			c.Decide(halves(lastPhi) && halves(nodePhi), "C07.inclusion", fn, "node_index and last_node are halved on every level", c.P.Rel(loopIf.Cond.Pos()), "")
		}
		// sibling side
		for _, ci := range ir.CallsTo(fn, hc) {
			a := ci.Common().Args // recv, left, right
			sibLeft := false
			isSib := func(v ssa.Value) bool {
				ld, ok := v.(*ssa.UnOp)
				if !ok {
					return false
				}
				ia, ok := ld.X.(*ssa.IndexAddr)
				return ok && ia.X == ssa.Value(ap)
			}
			switch {
			case isSib(a[1]) && !isSib(a[2]):
				sibLeft = true
			case isSib(a[2]) && !isSib(a[1]):
			default:
				c.Violate("C07.inclusion", fn, "hash_children combines the running hash with exactly one proof element", c.P.Rel(ci.Pos()), "")
				continue
			}
			odd := cmpGuard("node_index % 2 == 1", func(b *ssa.BinOp) (bool, bool) {
				subj, oddWhenTrue, ok := parityTest(b)
				if !ok || (nodePhi != nil && subj != ssa.Value(nodePhi)) {
					return false, false
				}
				return true, oddWhenTrue == sibLeft
			})
			side := "right (node is a left child)"
			if sibLeft {
				side = "left (node is a right child)"
			}
			odd.Name = "node_index%2==1 is " + sprintf("%v", sibLeft)
			eng.Dominates(c, "C07.inclusion", fn, odd, []ir.Sink{{Instr: ci, Note: "sibling on the " + side}}, "sibling placed on the "+side, nil)
			if !sibLeft && nodePhi != nil && lastPhi != nil {
				eng.Dominates(c, "C07.inclusion", fn, relGuard("node_index < last_node", func(v ssa.Value) bool { return v == ssa.Value(nodePhi) }, func(v ssa.Value) bool { return v == ssa.Value(lastPhi) }, token.LSS),
					[]ir.Sink{{Instr: ci, Note: "right sibling"}}, "right sibling consumed only when one exists", nil)
			}
			// pos advances by exactly one on the iterations that consume this sibling
			inc := 0
			if loopIf != nil && posPhi != nil {
				var incs []ssa.Instruction
				for _, bb := range fn.Blocks {
					for _, in := range bb.Instrs {
						if b, ok := in.(*ssa.BinOp); ok && b.Op == token.ADD && b.X == ssa.Value(posPhi) {
							if k, okk := ir.ConstInt(b.Y); okk && k == 1 {
								incs = append(incs, b)
							}
						}
					}
				}
				if pairedOnIteration(fn, loopIf, ci, incs) {
					inc = 1
				}
			}
			c.Decide(inc == 1, "C07.inclusion", fn, "pos advances by one with the sibling on the "+side, c.P.Rel(ci.Pos()), "")
		}
	}

	// ---- consistency
	if fn := c.Fn(pkM, "MerkleVerifier.VerifyConsistency"); fn != nil {
		pp := paramByName(fn, "proof")
		reads := indexReads(fn, pp)
		c.Floor("proof reads in VerifyConsistency", len(reads), 2)
		for i, ia := range reads {
			idx := ia.Index
			eng.Dominates(c, "C07.consistency", fn, relGuard(sprintf("index #%d < len(proof)", i+1), func(v ssa.Value) bool { return v == idx }, isLenOfParam(pp), token.LSS),
				[]ir.Sink{{Instr: ia, Note: "proof read"}}, sprintf("proof read #%d", i+1), nil)
		}
		succ := ir.SuccessSinks(fn)
		// classify the nil returns: early ones are dominated by their frozen reason
		oldRoot, newRoot := paramByName(fn, "old_root"), paramByName(fn, "new_root")
		is := func(p *ssa.Parameter) func(ssa.Value) bool {
			return func(v ssa.Value) bool { return p != nil && ir.Strip(v) == ssa.Value(p) }
		}
		early1 := relGuard("old_root == new_root", is(oldRoot), is(newRoot), token.EQL)
		early2 := relGuard("old_size == 0", is(paramByName(fn, "old_tree_size")), isConstInt(0), token.EQL)
		isHashPhi := func(name string) func(ssa.Value) bool {
			return func(v ssa.Value) bool { p, ok := v.(*ssa.Phi); return ok && p.Comment == name }
		}
		final1 := relGuard("new_hash == new_root", isHashPhi("new_hash"), is(newRoot), token.EQL)
		final2 := relGuard("old_hash == old_root", isHashPhi("old_hash"), is(oldRoot), token.EQL)
		final3 := relGuard("pos == len(proof)", isHashPhi("pos"), isLenOfParam(pp), token.EQL)
		c.Floor("nil returns of VerifyConsistency", len(succ), 2)
		nEarly, nFinal := 0, 0
		for _, s := range succ {
			one := []ir.Sink{s}
			switch {
			case quietDominates(fn, early1, s):
				nEarly++
				c.Hold("C07.consistency", fn, "early nil: identical roots (accepted by design)", c.P.Rel(s.Instr.Pos()), "")
			case quietDominates(fn, early2, s):
				nEarly++
				c.Hold("C07.consistency", fn, "early nil: empty old tree (accepted by design)", c.P.Rel(s.Instr.Pos()), "")
			case quietDominates(fn, eng.NamedGuard{Name: "old_root == new_root ∨ old_size == 0", G: ir.Or(early1.G, early2.G)}, s):
				// the two trivial cases written as one `||` test
				nEarly += 2
				c.Hold("C07.consistency", fn, "early nil: identical roots or empty old tree (accepted by design)", c.P.Rel(s.Instr.Pos()), "")
			default:
				nFinal++
				eng.Dominates(c, "C07.consistency", fn, final1, one, "final nil return", nil)
				eng.Dominates(c, "C07.consistency", fn, final2, one, "final nil return", nil)
				eng.Dominates(c, "C07.consistency", fn, final3, one, "final nil return", nil)
			}
		}
		c.Decide(nEarly <= 2 && nFinal >= 1, "C07.consistency", fn, "nil is returned only in the two trivial cases (identical roots, empty old tree) and at the fully checked end", c.P.Rel(fn.Pos()), sprintf("%d early, %d final", nEarly, nFinal))
		eng.Dominates(c, "C07.consistency", fn, relGuard("old_size <= new_size", is(paramByName(fn, "old_tree_size")), is(paramByName(fn, "new_tree_size")), token.LEQ), succ, "nil return", nil)
	}

	// ---- path proofs
	if fn := c.Fn(pkM, "MerkleProve"); fn != nil {
		hl := eng.Obj(c, pkM, "HashLeaf")
		hch := eng.Obj(c, pkM, "HashChildren")
		succ := nonNilParamSuccess(fn)
		c.Floor("value returns of MerkleProve", len(succ), 1)
		rootP := paramByName(fn, "root")
		var foldAlloc ssa.Value
		eng.Dominates(c, "C07.path-proof", fn, eng.NamedGuard{Name: "bytes.Equal(fold[:], root) == true", G: ir.BoolIs(func(x *ssa.Call) bool {
			if !ir.IsPkgFunc(x, "bytes", "Equal") {
				return false
			}
			a := x.Common().Args
			if ir.Strip(a[1]) != ssa.Value(rootP) {
				return false
			}
			if sl, ok := a[0].(*ssa.Slice); ok {
				foldAlloc = sl.X
				return true
			}
			return false
		}, true)}, succ, "value returned", nil)
		// value returned = the decoded value whose leaf hash starts the fold
		okStart := false
		var valueV ssa.Value
		for _, ci := range ir.CallsTo(fn, hl) {
			valueV = ir.Strip(ci.Common().Args[0])
			if ex, ok := valueV.(*ssa.Extract); ok && ex.Index == 0 {
				if cl, isCl := ex.Tuple.(*ssa.Call); isCl && ir.CalleeObj(cl) != nil && ir.CalleeObj(cl).Name() == "NextVarBytes" {
					okStart = true
				}
			}
		}
		okRet := len(succ) > 0
		for _, s := range succ {
			if ret, ok := s.Instr.(*ssa.Return); ok && ir.Strip(ret.Results[0]) != valueV {
				okRet = false
			}
		}
		// the value compared with the root is the running hash cell the HashChildren results are stored into
		okFold := foldAlloc != nil
		if al, isAl := foldAlloc.(*ssa.Alloc); isAl && al.Referrers() != nil {
			for _, r := range *al.Referrers() {
				if st, isSt := r.(*ssa.Store); isSt {
					// HashLeaf / HashChildren results, possibly through a helper all of whose returns are
					var isFoldOp func(v ssa.Value, depth int) bool
					isFoldOp = func(v ssa.Value, depth int) bool {
						cl, idx := ir.CallOf(v)
						if cl == nil {
							return false
						}
						if ir.CalleeIs(cl, hl) || ir.CalleeIs(cl, hch) {
							return true
						}
						h := cl.Common().StaticCallee()
						if depth >= 2 || h == nil || len(h.Blocks) == 0 || h.Pkg != fn.Pkg {
							return false
						}
						if idx < 0 {
							idx = 0
						}
						n := 0
						for _, hb := range h.Blocks {
							if ret, isRet := hb.Instrs[len(hb.Instrs)-1].(*ssa.Return); isRet && idx < len(ret.Results) {
								if !isFoldOp(ret.Results[idx], depth+1) {
									return false
								}
								n++
							}
						}
						return n > 0
					}
					if !isFoldOp(st.Val, 0) {
						okFold = false
					}
				}
			}
			// … nor patched through a slice or an element address (copy(hash[:], value), hash[i] = b)
			for _, r := range *al.Referrers() {
				var views []ssa.Value
				switch x := r.(type) {
				case *ssa.Slice:
					views = append(views, x)
				case *ssa.IndexAddr:
					views = append(views, x)
				}
				for _, v := range views {
					if v.Referrers() == nil {
						continue
					}
					for _, u := range *v.Referrers() {
						switch y := u.(type) {
						case *ssa.Store:
							if y.Addr == v {
								okFold = false
							}
						case *ssa.IndexAddr:
							if y.Referrers() != nil {
								for _, w := range *y.Referrers() {
									if st, isSt := w.(*ssa.Store); isSt && st.Addr == ssa.Value(y) {
										okFold = false
									}
								}
							}
						case *ssa.Call:
							if bi, isB := y.Common().Value.(*ssa.Builtin); isB && bi.Name() == "copy" && len(y.Common().Args) > 0 && y.Common().Args[0] == v {
								okFold = false
							}
						}
					}
				}
			}
		} else {
			okFold = false
		}
		c.Decide(okFold, "C07.path-proof", fn, "the hash compared with the root is the running fold (only HashLeaf / HashChildren results are stored in it)", c.P.Rel(fn.Pos()), "")
		c.Decide(okStart && okRet, "C07.path-proof", fn, "the fold starts at HashLeaf(value) of the very value that is returned", c.P.Rel(fn.Pos()), "")
		// flag decision table
		// the flag / the sibling: the value read by NextByte / NextHash, in MerkleProve itself or handed back by
		// a reader helper (`flag, sibling, err := nextPathElement(source)`)
		readBy := func(v ssa.Value, reader string, depth int) bool {
			for d := 0; d <= depth; d++ {
				v = ir.Strip(v)
				if ex, ok := v.(*ssa.Extract); ok && ex.Index == 0 {
					if cl, isCl := ex.Tuple.(*ssa.Call); isCl && ir.CalleeObj(cl) != nil && ir.CalleeObj(cl).Name() == reader {
						return true
					}
				}
				nv, release := valueVia(v)
				release()
				if nv == v {
					return false
				}
				v = nv
			}
			return false
		}
		var flagV ssa.Value
		for _, host := range func() []*ssa.Function { hs, rel := hostsWithHelpers(fn); rel(); return hs }() {
			for _, ci := range ir.Calls(host, func(ci ssa.CallInstruction) bool { o := ir.CalleeObj(ci); return o != nil && o.Name() == "NextByte" }) {
				if v, ok := ci.(ssa.Value); ok && v.Referrers() != nil {
					for _, r := range *v.Referrers() {
						if ex, isEx := r.(*ssa.Extract); isEx && ex.Index == 0 {
							flagV = ex
						}
					}
				}
			}
		}
		left, _ := c.P.Const(pkM, "LEFT")
		right, _ := c.P.Const(pkM, "RIGHT")
		if flagV == nil || left == nil || right == nil {
			c.Broken("C07.path-proof", fn, "position flag and LEFT/RIGHT constants", c.P.Rel(fn.Pos()), "not found")
		} else {
			kl, _ := constInt64Val(left)
			kr, _ := constInt64Val(right)
			isSibling := func(v ssa.Value) bool { return readBy(v, "NextHash", 2) }
			n := 0
			// the combine step may sit in a small same-package helper handed flag, sibling and fold
			hosts, releaseHosts := hostsWithHelpers(fn)
			isFlag := func(v ssa.Value) bool { return v == flagV || ir.Strip(v) == flagV || readBy(v, "NextByte", 2) }
			for _, host := range hosts {
				if host != fn {
					c.Attribute(host, fn)
				}
				for _, ci := range ir.CallsTo(host, hch) {
					a := ci.Common().Args
					n++
					switch {
					case isSibling(a[0]) && !isSibling(a[1]):
						eng.Dominates(c, "C07.path-proof", host, relGuard("flag == LEFT", isFlag, isConstInt(kl), token.EQL), []ir.Sink{{Instr: ci, Note: "sibling on the left"}}, "sibling placed on the left", nil)
					case isSibling(a[1]) && !isSibling(a[0]):
						eng.Dominates(c, "C07.path-proof", host, relGuard("flag == RIGHT", isFlag, isConstInt(kr), token.EQL), []ir.Sink{{Instr: ci, Note: "sibling on the right"}}, "sibling placed on the right", nil)
					default:
						c.Violate("C07.path-proof", host, "HashChildren combines the running hash with exactly one decoded sibling", c.P.Rel(ci.Pos()), "")
					}
				}
			}
			releaseHosts()
			c.Floor("HashChildren calls in MerkleProve", n, 2)
		}
		// every (flag, sibling) element that was read is folded into the running hash before the next element is
		// read or the value is returned: an element with an unknown flag must not be skipped
		for _, ci := range ir.CallsThrough(fn, func(ci ssa.CallInstruction) bool { o := ir.CalleeObj(ci); return o != nil && o.Name() == "NextHash" }, 1) {
			nexts := ir.CallsThrough(fn, func(x ssa.CallInstruction) bool { o := ir.CalleeObj(x); return o != nil && o.Name() == "NextByte" }, 1)
			sinks := append(append([]ir.Sink{}, succ...), ir.CallSinks(nexts, "next element read")...)
			eng.MustPassCall(c, "C07.path-proof", fn, "HashChildren(fold, sibling)", func(x ssa.CallInstruction) bool { return ir.CalleeIs(x, hch) }, sinks, "next element / value returned (every element read is folded)", &eng.Opt{Start: ci.(ssa.Instruction)})
		}
		// reads under !eof
		for _, nm := range []string{"NextByte", "NextHash", "NextVarBytes"} {
			for _, ci := range ir.Calls(fn, func(ci ssa.CallInstruction) bool { o := ir.CalleeObj(ci); return o != nil && o.Name() == nm }) {
				cl := ci.(*ssa.Call)
				eng.Dominates(c, "C07.path-proof", fn, eng.NamedGuard{Name: nm + " eof == false", G: func(cd ir.Cond) (bool, bool) {
					ex, ok := cd.V.(*ssa.Extract)
					if ok && ex.Tuple == ssa.Value(cl) && ex.Index == 1 {
						return true, false
					}
					return false, false
				}}, succ, "value returned", &eng.Opt{Start: cl})
			}
		}
		// (trailing bytes shorter than one (flag, hash) pair are ignored by MerkleProve; the property lists altered hashes, flags,
		// index, size, leaf and root, not appended bytes, so complete consumption is recorded in DESIGN.md as an observation only)
	}
}

func recvNamed(cl *ssa.Call, name string) bool {
	o := ir.CalleeObj(cl)
	if o == nil {
		return false
	}
	sig, _ := o.Type().(*types.Signature)
	if sig == nil || sig.Recv() == nil {
		return false
	}
	t := sig.Recv().Type()
	if p, ok := t.(*types.Pointer); ok {
		t = p.Elem()
	}
	n, ok := t.(*types.Named)
	return ok && n.Obj().Name() == name
}

// quietDominates: guard dominance without recording an obligation.
func quietDominates(fn *ssa.Function, g eng.NamedGuard, s ir.Sink) bool {
	pass := ir.PassEdges(fn, g.G)
	if len(pass) == 0 {
		return false
	}
	r := ir.NewReach(fn).CutEdges(pass).Run(nil)
	return !r.SinkReachable(s)
}

// parityTest decomposes a test of the lowest bit: x%2 == 1, x%2 != 0, x&1 == 1,
// x&1 != 0 and their negations.  oddWhenTrue: the comparison is true exactly
// when x is odd.
func parityTest(b *ssa.BinOp) (subject ssa.Value, oddWhenTrue bool, ok bool) {
	if b.Op != token.EQL && b.Op != token.NEQ {
		return nil, false, false
	}
	low, isB := b.X.(*ssa.BinOp)
	if !isB {
		return nil, false, false
	}
	k, okk := ir.ConstInt(low.Y)
	switch {
	case low.Op == token.REM && okk && k == 2:
	case low.Op == token.AND && okk && k == 1:
	default:
		return nil, false, false
	}
	c, okc := ir.ConstInt(b.Y)
	if !okc || (c != 0 && c != 1) {
		return nil, false, false
	}
	return low.X, (b.Op == token.EQL) == (c == 1), true
}

// positiveTest recognises the exact spellings of "x > 0": x > 0, 0 < x, x >= 1, 1 <= x and, for an
// unsigned x, x != 0 / 0 != x; and of its negation (x == 0 on an unsigned, x <= 0, x < 1).
func positiveTest(b *ssa.BinOp) (subject ssa.Value, positiveWhenTrue bool, ok bool) {
	x, y, op := b.X, b.Y, b.Op
	if _, isC := ir.ConstInt(x); isC {
		x, y = y, x
		switch op {
		case token.LSS:
			op = token.GTR
		case token.GTR:
			op = token.LSS
		case token.LEQ:
			op = token.GEQ
		case token.GEQ:
			op = token.LEQ
		}
	}
	k, isK := ir.ConstInt(y)
	if !isK {
		return nil, false, false
	}
	unsigned := false
	if bt, isB := x.Type().Underlying().(*types.Basic); isB && bt.Info()&types.IsUnsigned != 0 {
		unsigned = true
	}
	switch {
	case op == token.GTR && k == 0, op == token.GEQ && k == 1, op == token.NEQ && k == 0 && unsigned:
		return x, true, true
	case op == token.LEQ && k == 0, op == token.LSS && k == 1, op == token.EQL && k == 0 && unsigned:
		return x, false, true
	}
	return nil, false, false
}

// pairedOnIteration: within one iteration of the loop whose header ends in
// loopIf, every path that executes `use` executes exactly one of `incs`, and no
// path executes two of them.
func pairedOnIteration(fn *ssa.Function, loopIf *ssa.If, use ssa.Instruction, incs []ssa.Instruction) bool {
	if len(incs) == 0 {
		return false
	}
	body := loopIf.Block().Succs[0]
	// (1) no iteration path passes `use` without an increment: reach `use` from the body start
	// with increments as barriers, then the next header test from `use` with the same barriers
	r1 := ir.NewReach(fn)
	for _, i := range incs {
		r1.Barrier[i] = true
	}
	r1.Barrier[loopIf] = true
	r1.RunFromBlock(body)
	if r1.Instr(use) {
		r2 := ir.NewReach(fn)
		for _, i := range incs {
			r2.Barrier[i] = true
		}
		r2.Run(use)
		if r2.Instr(loopIf) {
			return false
		}
	}
	// (2) at most one increment per iteration
	for _, i := range incs {
		r3 := ir.NewReach(fn)
		r3.Barrier[loopIf] = true
		r3.Run(i)
		for _, j := range incs {
			if r3.Instr(j) {
				return false
			}
		}
	}
	return true
}
