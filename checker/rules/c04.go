package rules

import (
	"strings"

	"golang.org/x/tools/go/ssa"

	"polyverif/core"
	"polyverif/eng"
	"polyverif/ir"
)

// C04 — contract parameters and stored records round-trip canonically.

func init() {
	core.Register(&core.Check{
		ID: "C04", Level: "other", Title: "Contract parameters and stored records round-trip canonically",
		Technique: "codec schema agreement over every Serialization/Deserialization pair (ordered wire-kind lists extracted from SSA, with wrap/ string≡varbytes normalisation), map-emission order classification with comparator audit, wire-bounded allocation rule, raw-storage-item pairing",
		Explain:   "Decided statically for every named type under native/, core/states and common/config that has both directions of a codec (enumerated from the method sets on every run; the count is asserted). (Schema) the writer and the reader perform the same ordered list of wire operations — kinds u8…u64, bool, varuint, varbytes(=string), hash, address, bytes, nested T:<type>, and wrap(varbytes|raw, T) for an object carried inside a length-prefixed or trailing byte string — and, where both sides resolve the struct field, the same field at each position; a reader that forgets a field, reads another width, or reads two fields in the other order is reported with both lists. (Canonical maps) in every encoder of the scope a range over a Go map must not leak iteration order: the keys are collected, sorted, and emitted from the sorted slice; every sort.Slice/SliceStable comparator must be a strict order on elements of the very slice being sorted (a comparator that indexes another slice leaves the order to the map). (Malformed input) no decoder of the scope sizes an allocation by a varuint/u32/u64 just read from the wire unless an upper bound on that value dominates the allocation. (Storage wrapper) GenRawStorageItem(v) is StorageItem{Value: v}.ToArray() and GetValueFromRawStorageItem returns item.Value after item.Deserialize err==nil; StorageItem's own pair is part of the schema rule. NOT decided: value equality after a round trip as such (e.g. numeric conversions inside one field), panics from index arithmetic on decoded slices.",
		Run:       runC04,
	})
}

func inC04Scope(p codecPair) bool { return inC04Pkg(p.Pkg) }

func inC04Pkg(rel string) bool {
	return strings.HasPrefix(rel, "native/") || rel == "native" || rel == "core/states" || rel == "common/config"
}

func runC04(c *core.Ctx) {
	checkOptionalTailAccepted(c, "C04.optional-tail", "native/service/...")
	c.Floor("zero-copy reads examined for lost end-of-input (contract parameters and records)", checkEofNotLost(c, "C04.eof-not-lost", funcsOfPkgs(c, "native/...", "core/states", "common/config")), 200)
	n := checkCodecPairs(c, "C04.schema", inC04Scope)
	c.Floor("codec pairs under native/, core/states, common/config", n, 70)

	// encoders of the scope (writers of pairs + write-only encoders)
	var encoders, decoders []*ssa.Function
	seen := map[*ssa.Function]bool{}
	for _, pk := range c.P.Mod {
		if pk.SSA == nil || pk.Types == nil {
			continue
		}
		rel := strings.TrimPrefix(pk.Types.Path(), ir.Mod+"/")
		if !inC04Pkg(rel) {
			continue
		}
		for _, f := range allFuncs(pk.SSA) {
			root := f
			for root.Parent() != nil {
				root = root.Parent()
			}
			rn := root.Name()
			if (rn == "Serialization" || rn == "Serialize" || rn == "ToArray") && !seen[f] {
				seen[f] = true
				encoders = append(encoders, f)
			}
		}
	}
	decoders = decoderFuncs(c, inC04Pkg)
	nLoops := checkMapEmission(c, "C04.canonical-map", encoders)
	c.Floor("map ranges inside encoders of the scope", nLoops, 8)
	nSorts := checkSortComparators(c, "C04.canonical-map", encoders)
	c.Floor("sort calls inside encoders of the scope", nSorts, 8)
	nProd := checkEncoderLoopsProductive(c, "C04.count-matches-elements", encoders)
	c.Floor("collecting/emitting loops inside encoders of the scope", nProd, 20)
	nPairs := checkCountNamesCollection(c, "C04.count-matches-elements", encoders)
	nMapPairs := checkCountNamesMap(c, "C04.count-matches-elements", encoders)
	c.Floor("count-prefix/sorted-map-loop pairs in encoders", nMapPairs, 3)
	c.Floor("count-prefix/loop pairs inside encoders of the scope", nPairs, 5)
	nRem := checkRemainingBytesBounds(c, "C04.bound-accepts-encoder-output", decoders)
	c.Floor("remaining-bytes bounds on wire counts in decoders of the scope", nRem, 2)
	nMakes, nWire := checkWireAllocs(c, "C04.bounded-alloc", decoders)
	c.Note("decoders examined: %d functions, %d make() sites, %d sized by a wire integer", len(decoders), nMakes, nWire)
	c.Floor("decoder functions in scope", len(decoders), 80)
	c.Floor("allocations sized by a wire integer in scope (all must be bounded)", nWire, 3)

	// storage wrapper
	if gen := c.Fn("core/states", "GenRawStorageItem"); gen != nil {
		okV := false
		for _, st := range allFieldStores(gen, "Value") {
			if ir.Strip(st.Val) == ssa.Value(gen.Params[0]) {
				okV = true
			}
		}
		okA := len(ir.Calls(gen, func(ci ssa.CallInstruction) bool { o := ir.CalleeObj(ci); return o != nil && o.Name() == "ToArray" })) == 1
		c.Decide(okV && okA, "C04.storage-wrapper", gen, "GenRawStorageItem(v) = StorageItem{Value: v}.ToArray()", c.P.Rel(gen.Pos()), "")
	}
	if get := c.Fn("core/states", "GetValueFromRawStorageItem"); get != nil {
		succ := nonNilParamSuccess(get)
		eng.Dominates(c, "C04.storage-wrapper", get, eng.NamedGuard{Name: "item.Deserialize(raw) err==nil", G: ir.ErrNil(func(x *ssa.Call) bool {
			o := ir.CalleeObj(x)
			return o != nil && o.Name() == "Deserialize"
		})}, succ, "value returned", nil)
		okV := len(succ) > 0
		for _, s := range succ {
			if r, ok := s.Instr.(*ssa.Return); ok && !isFieldNamed(r.Results[0], "Value") {
				okV = false
			}
		}
		c.Decide(okV, "C04.storage-wrapper", get, "the value returned is item.Value", c.P.Rel(get.Pos()), "")
	}
	if ta := c.Fn("core/states", "StorageItem.ToArray"); ta != nil {
		ok := false
		for _, ci := range ir.Calls(ta, func(ci ssa.CallInstruction) bool { o := ir.CalleeObj(ci); return o != nil && o.Name() == "Serialize" }) {
			if ir.Strip(ci.Common().Args[0]) == ssa.Value(ta.Params[0]) {
				ok = true
			}
		}
		c.Decide(ok, "C04.storage-wrapper", ta, "ToArray is the bytes of StorageItem.Serialize", c.P.Rel(ta.Pos()), "")
	}
}
