package rules

import (
	"go/constant"
	"go/token"

	"golang.org/x/tools/go/ssa"

	"polyverif/core"
	"polyverif/eng"
	"polyverif/ir"
)

// C39 — transaction signature validation is exact.

const pkValidation = "core/validation"

func init() {
	core.Register(&core.Check{
		ID: "C39", Level: "other", Title: "Transaction signature validation is exact",
		Technique: "guard dominance relative to the per-entry loop body, argument identity on SSA values, loop-iteration must-execute, mask discipline in VerifyMultiSignature",
		Explain:   "Soundness half of the property, decided on the SSA. checkTransactionSignatures: nil is returned only after len(tx.Sigs) <= TX_MAX_SIG_SIZE and after the loop over tx.Sigs ran to its end; relative to the start of each iteration every insertion into the signer-address set is dominated by kn <= MULTI_SIG_MAX_PUBKEY_SIZE, sn >= m, m <= kn, m > 0 (kn=len(sig.PubKeys), sn=len(sig.SigData), m=int(sig.M) of the SAME entry) and by the verification of that entry — single-key arm (selected by kn == 1): signature.Verify(sig.PubKeys[0], hash[:], sig.SigData[0]) err==nil and the address inserted is AddressFromPubKey(sig.PubKeys[0]); multi-key arm: VerifyMultiSignature(hash[:], sig.PubKeys, m, sig.SigData) err==nil, AddressFromMultiPubKeys(sig.PubKeys, m) err==nil and the address inserted is its result; hash is tx.Hash(); every iteration inserts an address (no entry is skipped); tx.SignedAddr is assigned only here, from a collection of exactly the keys of that set. VerifyTransaction returns ErrNoError only after checkTransactionSignatures err==nil. core/signature.Verify returns nil only after Deserialize err==nil and s.Verify(pubKey, data, sig) true on its own parameters. VerifyMultiSignature: len(sigs) >= m, every accepted signature marks a previously unmarked key slot under s.Verify(keys[j], data, sig) (m DISTINCT keys), each of the m signatures must mark one, nil only after all m. EncodeMultiPubKeyProgramInto (address derivation): nil only after 1 <= m <= n, 1 < n <= MULTI_SIG_MAX_PUBKEY_SIZE. NOT decided: completeness ('exactly when' — every valid transaction passes), and the cryptography of ontology-crypto.",
		Run:       runC39,
	})
}

func runC39(c *core.Ctx) {
	checkKeyCountBoundAgreement(c)
	checkAddressFromDeclaredThreshold(c)
	fn := c.Fn(pkValidation, "checkTransactionSignatures")
	verify := eng.Obj(c, pkSig, "Verify")
	vms := eng.Obj(c, pkSig, "VerifyMultiSignature")
	afp := eng.Obj(c, pkTypes, "AddressFromPubKey")
	afm := eng.Obj(c, pkTypes, "AddressFromMultiPubKeys")
	if fn == nil || verify == nil || vms == nil || afp == nil || afm == nil {
		return
	}
	maxSig, err1 := c.P.Const("common/constants", "TX_MAX_SIG_SIZE")
	maxKey, err2 := c.P.Const("common/constants", "MULTI_SIG_MAX_PUBKEY_SIZE")
	if err1 != nil || err2 != nil {
		c.Broken("anchor", fn, "constants TX_MAX_SIG_SIZE / MULTI_SIG_MAX_PUBKEY_SIZE", "", "not found")
		return
	}
	kSig, _ := constant.Int64Val(maxSig)
	kKey, _ := constant.Int64Val(maxKey)
	txP := fn.Params[0]
	isTx := func(v ssa.Value) bool { return ir.Strip(v) == ssa.Value(txP) }
	succ := ir.SuccessSinks(fn)
	eng.Dominates(c, "C39.entry-count", fn, relGuard("len(tx.Sigs) <= TX_MAX_SIG_SIZE", isLenOfField("Sigs", isTx), isConstInt(kSig), token.LEQ), succ, "nil return", nil)

	loops := eng.FindSliceLoops(fn, func(v ssa.Value) bool { b, f, ok := fieldLoad(v); return ok && f == "Sigs" && isTx(b) })
	if len(loops) != 1 {
		c.Broken("C39.per-entry", fn, "loop over tx.Sigs", c.P.Rel(fn.Pos()), sprintf("%d loops", len(loops)))
		return
	}
	lp := loops[0]
	eng.Dominates(c, "C39.per-entry", fn, eng.NamedGuard{Name: "every entry of tx.Sigs processed", G: func(cd ir.Cond) (bool, bool) { return cd.If == lp.Cond, false }}, succ, "nil return", nil)

	// the address set and its insertions
	var inserts []*ssa.MapUpdate
	var set ssa.Value
	for _, b := range fn.Blocks {
		for _, in := range b.Instrs {
			if mu, ok := in.(*ssa.MapUpdate); ok {
				if _, isMk := mu.Map.(*ssa.MakeMap); isMk {
					inserts = append(inserts, mu)
					set = mu.Map
				}
			}
		}
	}
	c.Floor("insertions into the signer-address set", len(inserts), 1)
	if len(inserts) == 0 {
		return
	}
	// the entry: the local copy `sig` of tx.Sigs[i]
	var entry ssa.Value
	for _, in := range lp.Body.Instrs {
		if st, ok := in.(*ssa.Store); ok {
			if al, isAl := st.Addr.(*ssa.Alloc); isAl {
				if ld, isLd := st.Val.(*ssa.UnOp); isLd {
					if ia, isIa := ld.X.(*ssa.IndexAddr); isIa {
						if b, f, okf := fieldLoad(ia.X); okf && f == "Sigs" && isTx(b) {
							entry = al
						}
					}
				}
			}
		}
	}
	// per-entry host: the loop body of fn, or a same-package helper handed the entry by value that
	// answers (address, error); then the address sites are the helper's error-free returns and the
	// caller inserts exactly the helper's answer under its err == nil
	host := fn
	type addrSite struct {
		in  ssa.Instruction
		key ssa.Value
		ret *ssa.Return
	}
	var sites []addrSite
	if entry == nil {
		for _, in := range lp.Body.Instrs {
			cl, isCl := in.(*ssa.Call)
			if !isCl {
				continue
			}
			h := cl.Common().StaticCallee()
			if h == nil || h.Pkg != fn.Pkg || len(h.Blocks) == 0 || h.Signature.Results().Len() != 2 {
				continue
			}
			for ai, a := range cl.Common().Args {
				ld, isLd := a.(*ssa.UnOp)
				if !isLd {
					continue
				}
				ia, isIa := ld.X.(*ssa.IndexAddr)
				if !isIa {
					continue
				}
				if b, f, okf := fieldLoad(ia.X); !okf || f != "Sigs" || !isTx(b) {
					continue
				}
				// the helper's spill of that parameter
				for _, hin := range h.Blocks[0].Instrs {
					if st, isSt := hin.(*ssa.Store); isSt && ai < len(h.Params) && st.Val == ssa.Value(h.Params[ai]) {
						if al, isAl := st.Addr.(*ssa.Alloc); isAl {
							entry = al
						}
					}
				}
				if entry == nil {
					continue
				}
				host = h
				defer ir.BindParams(h, cl.Common().Args)()
				c.Attribute(h, fn)
				// the caller inserts the helper's answer, only when the helper reported no error
				okIns := len(inserts) > 0
				for _, mu := range inserts {
					k, ki := ir.CallOf(mu.Key)
					if k != cl || ki != 0 {
						okIns = false
					}
				}
				c.Decide(okIns, "C39.address", fn, "the address inserted is the one the per-entry helper answered", c.P.Rel(cl.Pos()), "")
				var insSinks []ir.Sink
				for _, mu := range inserts {
					insSinks = append(insSinks, ir.Sink{Instr: mu, Note: "address insertion"})
				}
				eng.Dominates(c, "C39.per-entry", fn, eng.NamedGuard{Name: h.Name() + " err==nil", G: ir.ErrNil(func(x *ssa.Call) bool { return x == cl })}, insSinks, "address insertion (per entry)", &eng.Opt{StartBlock: lp.Body})
				for _, s := range ir.SuccessSinks(h) {
					if ret, isRet := s.Instr.(*ssa.Return); isRet {
						sites = append(sites, addrSite{ret, ret.Results[0], ret})
					}
				}
			}
		}
	}
	if entry == nil {
		c.Broken("C39.per-entry", fn, "entry variable sig = tx.Sigs[i]", c.P.Rel(lp.Cond.Pos()), "not found")
		return
	}
	// hybrid: the entry is copied in fn, its counts are tested in fn, and a same-package helper handed
	// the copy verifies it and answers (address, error): the four count guards stay obligations of
	// fn's insertions, the verification / derivation obligations move to the helper's error-free returns
	siteHost := host
	var entry2 ssa.Value
	if host == fn {
		var via *ssa.Call
		for _, mu := range inserts {
			k, ki := ir.CallOf(mu.Key)
			if k == nil || ki != 0 || (via != nil && k != via) {
				via = nil
				break
			}
			via = k
		}
		if via != nil {
			if h := via.Common().StaticCallee(); h != nil && h.Pkg == fn.Pkg && len(h.Blocks) > 0 && h.Signature.Results().Len() == 2 {
				for ai, a := range via.Common().Args {
					ld, isLd := a.(*ssa.UnOp)
					if !isLd || ld.X != entry || ai >= len(h.Params) {
						continue
					}
					for _, hin := range h.Blocks[0].Instrs {
						if st, isSt := hin.(*ssa.Store); isSt && st.Val == ssa.Value(h.Params[ai]) {
							if al, isAl := st.Addr.(*ssa.Alloc); isAl {
								entry2 = al
							}
						}
					}
				}
				if entry2 != nil {
					siteHost = h
					defer ir.BindParams(h, via.Common().Args)()
					c.Attribute(h, fn)
					var insSinks []ir.Sink
					for _, mu := range inserts {
						insSinks = append(insSinks, ir.Sink{Instr: mu, Note: "address insertion"})
					}
					eng.Dominates(c, "C39.per-entry", fn, eng.NamedGuard{Name: h.Name() + " err==nil", G: ir.ErrNil(func(x *ssa.Call) bool { return x == via })}, insSinks, "address insertion (per entry)", &eng.Opt{StartBlock: lp.Body})
					for _, s := range ir.SuccessSinks(h) {
						if ret, isRet := s.Instr.(*ssa.Return); isRet {
							sites = append(sites, addrSite{ret, ret.Results[0], ret})
						}
					}
				}
			}
		}
	}
	if host == fn && siteHost == fn {
		for _, mu := range inserts {
			sites = append(sites, addrSite{mu, mu.Key, nil})
		}
	}
	isEntry := func(v ssa.Value) bool { return v == entry || (entry2 != nil && v == entry2) }
	kn := isLenOfField("PubKeys", isEntry)
	sn := isLenOfField("SigData", isEntry)
	m := isFieldOf("M", isEntry)
	opt := &eng.Opt{StartBlock: lp.Body}
	if host != fn {
		opt = nil
	}
	var sinks []ir.Sink
	for _, st := range sites {
		sinks = append(sinks, ir.Sink{Instr: st.in, Note: "address insertion"})
	}
	siteOpt := opt
	if siteHost != host {
		sinks = nil
		for _, mu := range inserts {
			sinks = append(sinks, ir.Sink{Instr: mu, Note: "address insertion"})
		}
		siteOpt = nil
	}
	eng.Dominates(c, "C39.per-entry", host, relGuard("len(sig.PubKeys) <= MULTI_SIG_MAX_PUBKEY_SIZE", kn, isConstInt(kKey), token.LEQ), sinks, "address insertion (per entry)", opt)
	eng.Dominates(c, "C39.per-entry", host, relGuard("len(sig.SigData) >= m", sn, m, token.GEQ), sinks, "address insertion (per entry)", opt)
	eng.Dominates(c, "C39.per-entry", host, relGuard("m <= len(sig.PubKeys)", m, kn, token.LEQ), sinks, "address insertion (per entry)", opt)
	eng.Dominates(c, "C39.per-entry", host, relGuard("m > 0", m, isConstInt(0), token.GTR), sinks, "address insertion (per entry)", opt)
	eng.IterationMustExec(c, "C39.per-entry", fn, lp.Header, lp.Body, "the loop over tx.Sigs", "an insertion into the signer-address set", func(in ssa.Instruction) bool {
		mu, ok := in.(*ssa.MapUpdate)
		return ok && mu.Map == set
	})

	// hash[:] of tx.Hash()
	isHash := func(v ssa.Value) bool {
		sl, ok := ir.Resolve(v).(*ssa.Slice)
		if !ok || sl.Low != nil || sl.High != nil {
			return false
		}
		al, ok := sl.X.(*ssa.Alloc)
		if !ok {
			return false
		}
		h := calleeNamed(ir.SingleStore(al), "Hash")
		return h != nil && isTx(h.Common().Args[0])
	}
	elem0 := func(field string) func(ssa.Value) bool {
		return func(v ssa.Value) bool {
			ld, ok := ir.Strip(v).(*ssa.UnOp)
			if !ok {
				return false
			}
			ia, ok := ld.X.(*ssa.IndexAddr)
			if !ok {
				return false
			}
			k, okk := ir.ConstInt(ia.Index)
			b, f, okf := fieldLoad(ia.X)
			return okk && k == 0 && okf && f == field && isEntry(b)
		}
	}
	whole := func(field string) func(ssa.Value) bool { return isFieldOf(field, isEntry) }

	nSingle, nMulti := 0, 0
	for _, mu := range inserts {
		if kb, ok := ir.ConstBool(mu.Value); !ok || !kb {
			c.Violate("C39.address", fn, "the set records membership (value true)", c.P.Rel(mu.Pos()), "")
		}
	}
	for _, site := range sites {
		mu := site
		one := []ir.Sink{{Instr: mu.in, Note: "address insertion"}}
		if cl := calleeNamed(mu.key, "AddressFromPubKey"); cl != nil && ir.CalleeIs(cl, afp) {
			nSingle++
			c.Decide(elem0("PubKeys")(cl.Common().Args[0]), "C39.address", fn, "single-key entry is attributed AddressFromPubKey(sig.PubKeys[0])", c.P.Rel(mu.in.Pos()), "")
			eng.Dominates(c, "C39.single", siteHost, relGuard("len(sig.PubKeys) == 1", kn, isConstInt(1), token.EQL), one, "single-key address insertion", siteOpt)
			eng.Dominates(c, "C39.single", siteHost, eng.NamedGuard{Name: "signature.Verify(sig.PubKeys[0], hash[:], sig.SigData[0]) err==nil", G: ir.ErrNil(func(x *ssa.Call) bool {
				a := x.Common().Args
				return ir.CalleeIs(x, verify) && elem0("PubKeys")(a[0]) && isHash(a[1]) && elem0("SigData")(a[2])
			})}, one, "single-key address insertion", siteOpt)
			continue
		}
		if cl, idx := ir.CallOf(mu.key); cl != nil && idx <= 0 && ir.CalleeIs(cl, afm) {
			nMulti++
			a := cl.Common().Args
			c.Decide(whole("PubKeys")(a[0]) && m(a[1]), "C39.address", fn, "multi-key entry is attributed AddressFromMultiPubKeys(sig.PubKeys, m)", c.P.Rel(mu.in.Pos()), "")
			forwardsErr := false
			if mu.ret != nil && len(mu.ret.Results) == 2 {
				if e, ei := ir.CallOf(mu.ret.Results[1]); e == cl && ei == 1 {
					forwardsErr = true // `return AddressFromMultiPubKeys(...)`: its error is the helper's error, tested by the caller
				}
			}
			if forwardsErr {
				c.Hold("C39.multi", siteHost, "AddressFromMultiPubKeys err==nil ≺ multi-key address insertion", c.P.Rel(mu.in.Pos()), "the derivation's error is returned as the helper's error")
			} else {
				eng.Dominates(c, "C39.multi", siteHost, eng.NamedGuard{Name: "AddressFromMultiPubKeys err==nil", G: ir.ErrNil(func(x *ssa.Call) bool { return x == cl })}, one, "multi-key address insertion", siteOpt)
			}
			eng.Dominates(c, "C39.multi", siteHost, eng.NamedGuard{Name: "VerifyMultiSignature(hash[:], sig.PubKeys, m, sig.SigData) err==nil", G: ir.ErrNil(func(x *ssa.Call) bool {
				a := x.Common().Args
				return ir.CalleeIs(x, vms) && isHash(a[0]) && whole("PubKeys")(a[1]) && m(a[2]) && whole("SigData")(a[3])
			})}, one, "multi-key address insertion", siteOpt)
			continue
		}
		c.Violate("C39.address", fn, "inserted address is AddressFromPubKey / AddressFromMultiPubKeys of the entry", c.P.Rel(mu.in.Pos()), "unrecognised key "+mu.key.Name())
	}
	c.Decide(nSingle >= 1 && nMulti >= 1, "C39.address", fn, "both entry kinds attribute an address", c.P.Rel(fn.Pos()), sprintf("%d single, %d multi", nSingle, nMulti))

	// SignedAddr: written only here, from the keys of the set
	checkFieldWriters(c, "C39.signed-addr", pkTypes, "Transaction", "SignedAddr", map[string]bool{
		"core/validation.checkTransactionSignatures": true, "(*core/types.Transaction).GetSignatureAddresses": true,
	})
	for _, b := range fn.Blocks {
		for _, in := range b.Instrs {
			st, ok := in.(*ssa.Store)
			if !ok {
				continue
			}
			fa, ok := st.Addr.(*ssa.FieldAddr)
			if !ok || fieldNameOf(fa) != "SignedAddr" {
				continue
			}
			okColl := true
			nApp := 0
			for _, l := range eng.PhiLeaves(nil, st.Val) {
				switch x := l.(type) {
				case *ssa.MakeSlice:
					if k, okk := ir.ConstInt(x.Len); !okk || k != 0 {
						okColl = false
					}
				case *ssa.Call:
					bi, isB := x.Common().Value.(*ssa.Builtin)
					if !isB || bi.Name() != "append" {
						okColl = false
						break
					}
					nApp++
					for _, e := range eng.VariadicElems(x.Common().Args[1]) {
						ex, isEx := ir.Strip(e).(*ssa.Extract)
						if !isEx || ex.Index != 1 {
							okColl = false
							continue
						}
						nx, isNx := ex.Tuple.(*ssa.Next)
						if !isNx {
							okColl = false
							continue
						}
						rg, isRg := nx.Iter.(*ssa.Range)
						if !isRg || rg.X != set {
							okColl = false
						}
					}
				default:
					okColl = false
				}
			}
			c.Decide(okColl && nApp >= 1, "C39.signed-addr", fn, "tx.SignedAddr = the keys of the verified-address set", c.P.Rel(st.Pos()), sprintf("%d append(s)", nApp))
			// and only after the loop over tx.Sigs completed
			eng.Dominates(c, "C39.signed-addr", fn, eng.NamedGuard{Name: "every entry of tx.Sigs processed", G: func(cd ir.Cond) (bool, bool) { return cd.If == lp.Cond, false }}, []ir.Sink{{Instr: st, Note: "SignedAddr assignment"}}, "SignedAddr assignment", nil)
		}
	}

	// VerifyTransaction
	if vt := c.Fn(pkValidation, "VerifyTransaction"); vt != nil {
		var okRets []ir.Sink
		for _, b := range vt.Blocks {
			for _, in := range b.Instrs {
				if r, ok := in.(*ssa.Return); ok && len(r.Results) == 1 {
					if k, okk := ir.ConstInt(r.Results[0]); !okk || k == 0 {
						okRets = append(okRets, ir.Sink{Instr: r, Note: "return ErrNoError (or non-constant)"})
					}
				}
			}
		}
		c.Floor("ErrNoError returns of VerifyTransaction", len(okRets), 1)
		eng.Dominates(c, "C39.verify-transaction", vt, eng.NamedGuard{Name: "checkTransactionSignatures(tx) err==nil", G: ir.ErrNil(func(x *ssa.Call) bool {
			return x.Common().StaticCallee() == fn && ir.Strip(x.Common().Args[0]) == ssa.Value(vt.Params[0])
		})}, okRets, "ErrNoError return", nil)
	}

	// core/signature.Verify
	if sv := c.Fn(pkSig, "Verify"); sv != nil {
		ss := ir.SuccessSinks(sv)
		var des *ssa.Call
		eng.Dominates(c, "C39.single-verify", sv, eng.NamedGuard{Name: "s.Deserialize(signature) err==nil", G: ir.ErrNil(func(x *ssa.Call) bool {
			o := ir.CalleeObj(x)
			if o != nil && o.Name() == "Deserialize" && ir.Strip(x.Common().Args[0]) == ssa.Value(sv.Params[2]) {
				des = x
				return true
			}
			return false
		})}, ss, "nil return", nil)
		eng.Dominates(c, "C39.single-verify", sv, eng.NamedGuard{Name: "s.Verify(pubKey, data, sigObj) == true", G: ir.BoolIs(func(x *ssa.Call) bool {
			o := ir.CalleeObj(x)
			if o == nil || o.Name() != "Verify" || o.Pkg() == nil || o.Pkg().Path() != "github.com/ontio/ontology-crypto/signature" {
				return false
			}
			a := x.Common().Args
			d, di := ir.CallOf(a[2])
			return ir.Strip(a[0]) == ssa.Value(sv.Params[0]) && ir.Strip(a[1]) == ssa.Value(sv.Params[1]) && d != nil && d == des && di == 0
		}, true)}, ss, "nil return", nil)
	}

	checkVerifyMultiSignature(c, "C39.multisig-internals")

	// EncodeMultiPubKeyProgramInto bounds
	if en := c.Fn(pkTypes, "EncodeMultiPubKeyProgramInto"); en != nil {
		ss := ir.SuccessSinks(en)
		isM := func(v ssa.Value) bool { return ir.Strip(v) == ssa.Value(en.Params[2]) }
		isN := func(v ssa.Value) bool {
			cl, ok := ir.Strip(v).(*ssa.Call)
			if !ok {
				return false
			}
			b, ok := cl.Common().Value.(*ssa.Builtin)
			return ok && b.Name() == "len" && ir.Strip(cl.Common().Args[0]) == ssa.Value(en.Params[1])
		}
		eng.Dominates(c, "C39.program-bounds", en, relGuard("m >= 1", isM, isConstInt(1), token.GEQ), ss, "nil return", nil)
		eng.Dominates(c, "C39.program-bounds", en, relGuard("m <= n", isM, isN, token.LEQ), ss, "nil return", nil)
		eng.Dominates(c, "C39.program-bounds", en, relGuard("n > 1", isN, isConstInt(1), token.GTR), ss, "nil return", nil)
		eng.Dominates(c, "C39.program-bounds", en, relGuard("n <= MULTI_SIG_MAX_PUBKEY_SIZE", isN, isConstInt(kKey), token.LEQ), ss, "nil return", nil)
	}
}
