package rules

import (
	"go/types"

	"golang.org/x/tools/go/ssa"

	"polyverif/core"
	"polyverif/ir"
)

// C14 (continued) — "the validator set changes only when an accepted block
// announces a new configuration", and then it becomes exactly the announced
// set.  Every peer table of the ledger store (map[string]uint32: peer id →
// index) is filled ONLY with (p.ID, p.Index) of the elements p of a chain
// configuration's Peers list.  A table first copied from the previous table and
// then overlaid keeps retired validators signing (and inflates N).
func checkPeerTablesFromAnnouncedSet(c *core.Ctx) {
	const rule = "C14.handover-is-announced-set"
	pk := c.P.Pkgs[ir.PkgPath(pkLedger)]
	if pk == nil || pk.SSA == nil {
		return
	}
	isPeerTable := func(t types.Type) bool {
		m, ok := t.Underlying().(*types.Map)
		if !ok {
			return false
		}
		k, ok1 := m.Key().Underlying().(*types.Basic)
		v, ok2 := m.Elem().Underlying().(*types.Basic)
		return ok1 && ok2 && k.Kind() == types.String && v.Kind() == types.Uint32
	}
	n := 0
	for _, fn := range allFuncs(pk.SSA) {
		for _, b := range fn.Blocks {
			for _, in := range b.Instrs {
				mu, ok := in.(*ssa.MapUpdate)
				if !ok || !isPeerTable(mu.Map.Type()) {
					continue
				}
				n++
				c.Touch(fn)
				kb, kf, okK := fieldLoad(mu.Key)
				vb, vf, okV := fieldLoad(mu.Value)
				okElem := false
				if okK && okV && kf == "ID" && vf == "Index" && ir.Strip(kb) == ir.Strip(vb) {
					// the element is an element of a .Peers slice
					e := ir.Strip(kb)
					if ld, isLd := e.(*ssa.UnOp); isLd {
						if ia, isIA := ld.X.(*ssa.IndexAddr); isIA {
							okElem = isFieldNamed(ia.X, "Peers")
							// a private builder handed the list: every caller passes <config>.Peers
							if prm, isP := ir.Strip(ia.X).(*ssa.Parameter); !okElem && isP && prm.Parent() == fn {
								idx := -1
								for i, q := range fn.Params {
									if q == prm {
										idx = i
									}
								}
								sites := 0
								okAll := idx >= 0
								for _, e := range c.P.CG().In[fn] {
									if e.Site == nil || e.Site.Common().StaticCallee() != fn {
										continue
									}
									sites++
									if a := e.Site.Common().Args; idx >= len(a) || !isFieldNamed(a[idx], "Peers") {
										okAll = false
									}
								}
								okElem = okAll && sites > 0
							}
						}
					}
				}
				why := ""
				if !okElem {
					why = "an entry is written that is not (p.ID, p.Index) of an announced configuration's peer: entries carried over from the previous table keep removed validators in the set"
				}
				c.Decide(okElem, rule, fn, "peer-table entry = (p.ID, p.Index) for p in <config>.Peers", c.P.Rel(mu.Pos()), why)
			}
		}
	}
	c.Floor("peer-table writes in the ledger store", n, 3)
}
