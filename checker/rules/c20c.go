package rules

import (
	"strings"

	"golang.org/x/tools/go/ssa"

	"polyverif/core"
	"polyverif/ir"
)

// checkStoredValuesNeverEmpty — at every storage layer of this code base an
// EMPTY value means "deleted" (MemDB.Put, CacheDB.Commit, OverlayDB.CommitTo and
// the write-set callback all branch on len(val)==0).  A record whose mere
// existence is the information — the done-marker of a cross-chain message, an
// "installed" marker, an approval ledger — must therefore be stored with a value
// that cannot be empty.  The native contracts achieve that by wrapping every
// stored value with states.GenRawStorageItem (one version byte + var-bytes): the
// value argument of every CacheDB.Put in the scope is the result of
// GenRawStorageItem.  Storing the raw id instead turns the marker of a message
// with an empty id into a tombstone, and that message is accepted on every
// submission.  Returns the number of Put sites examined.
func checkStoredValuesNeverEmpty(c *core.Ctx, rule string, inScope func(rel string) bool, except map[string]string) int {
	n := 0
	for _, pk := range c.P.Mod {
		if pk.SSA == nil || pk.Types == nil {
			continue
		}
		rel := strings.TrimPrefix(pk.Types.Path(), ir.Mod+"/")
		if !inScope(rel) {
			continue
		}
		for _, fn := range allFuncs(pk.SSA) {
			for _, ci := range ir.Calls(fn, func(ci ssa.CallInstruction) bool {
				o := ir.CalleeObj(ci)
				return o != nil && o.Name() == "Put" && recvNamedCI(ci, "CacheDB")
			}) {
				a := ci.Common().Args
				if len(a) < 3 {
					continue
				}
				n++
				if why, ok := except[ir.FuncName(fn)]; ok {
					c.Hold(rule, fn, "stored value cannot be empty (excepted: "+why+")", c.P.Rel(ci.Pos()), "")
					continue
				}
				ok := false
				for _, leaf := range phiLeavesOf(a[2], 4) {
					if provablyNonEmpty(leaf) {
						ok = true
						continue
					}
					cl, _ := ir.CallOf(leaf)
					if cl != nil && ir.CalleeObj(cl) != nil {
						switch ir.CalleeObj(cl).Name() {
						case "GenRawStorageItem", "ToArray":
							ok = true
							continue
						}
					}
					ok = false
					break
				}
				c.Decide(ok, rule, fn, "the stored value is wrapped (GenRawStorageItem): it cannot be empty, so the record cannot read as deleted", c.P.Rel(ci.Pos()),
					"a raw value is stored; when it is empty every storage layer treats the write as a delete and the record never exists")
			}
		}
	}
	return n
}

func phiLeavesOf(v ssa.Value, depth int) []ssa.Value {
	if phi, ok := v.(*ssa.Phi); ok && depth > 0 {
		var out []ssa.Value
		for _, e := range phi.Edges {
			out = append(out, phiLeavesOf(e, depth-1)...)
		}
		return out
	}
	return []ssa.Value{v}
}

func inNativeService(rel string) bool { return strings.HasPrefix(rel, "native/service/") }

// functions allowed to store a raw (unwrapped) value, with the reason the value cannot be empty
var c20RawValueWriters = map[string]string{
	"native/service/cross_chain_manager/btc.makeBtcTx": "stores wire.MsgTx.BtcEncode output after err==nil: at least version, counts and lock time (10 bytes)",
}
