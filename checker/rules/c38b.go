package rules

import (
	"golang.org/x/tools/go/ssa"

	"polyverif/core"
	"polyverif/eng"
	"polyverif/ir"
)

// C38 (continued) — "a transaction already in the ledger fails stateful
// validation" rests on BlockStore.ContainTransaction.  The in-memory cache holds
// only recent transactions (and is empty after a restart), so it may answer
// "yes" but never "no": every return of ContainTransaction that can be
// (false, nil) is reached only after the persistent store itself was asked for
// the transaction key.
func checkContainTxAsksTheStore(c *core.Ctx) {
	const rule = "C38.ledger-membership"
	fn := c.Fn(pkLedger, "BlockStore.ContainTransaction")
	if fn == nil {
		return
	}
	var sinks []ir.Sink
	for _, s := range ir.BoolReturnSinks(fn, 0, false) {
		ret, ok := s.Instr.(*ssa.Return)
		if !ok || len(ret.Results) != 2 {
			continue
		}
		if ir.ClassifyErr(fn, ret.Results[1], ret.Block()) == ir.RetFail {
			continue
		}
		sinks = append(sinks, s)
	}
	c.Floor("possibly (false, nil) returns of BlockStore.ContainTransaction", len(sinks), 1)
	if len(sinks) == 0 {
		return
	}
	eng.MustPassCall(c, rule, fn, "persistent store read of the transaction key", func(ci ssa.CallInstruction) bool {
		o := ir.CalleeObj(ci)
		if o == nil || (o.Name() != "Get" && o.Name() != "Has") {
			return false
		}
		var recv ssa.Value
		if ci.Common().IsInvoke() {
			recv = ci.Common().Value
		} else if len(ci.Common().Args) > 0 {
			recv = ci.Common().Args[0]
		}
		return recv != nil && isFieldNamed(recv, "store")
	}, sinks, "answer \"not in the ledger\"", nil)
}
