package rules

import (
	"golang.org/x/tools/go/ssa"

	"polyverif/core"
	"polyverif/ir"
)

// C08 (continued) — node-store positions.  The hash store is addressed by the
// CUMULATIVE positions of the complete sub-trees (getSubTreePos); getSubTreeSize
// yields their sizes, a table of the same type and length that agrees with it
// only on the first element.  Every position handed to hashStore.GetHash that is
// taken from a sub-tree table must come from getSubTreePos — the rule all four
// proof builders of package merkle follow.
func checkNodeStorePositions(c *core.Ctx) {
	const rule = "C08.node-positions"
	pk := c.P.Pkgs[ir.PkgPath("merkle")]
	if pk == nil || pk.SSA == nil {
		return
	}
	var origin func(v ssa.Value, depth int) string
	origin = func(v ssa.Value, depth int) string {
		if depth > 8 || v == nil {
			return ""
		}
		switch x := v.(type) {
		case *ssa.BinOp:
			if o := origin(x.X, depth+1); o != "" {
				return o
			}
			return origin(x.Y, depth+1)
		case *ssa.Convert:
			return origin(x.X, depth+1)
		case *ssa.Phi:
			for _, e := range x.Edges {
				if o := origin(e, depth+1); o != "" {
					return o
				}
			}
		case *ssa.UnOp:
			if ia, ok := x.X.(*ssa.IndexAddr); ok {
				if cl, _ := ir.CallOf(ia.X); cl != nil && cl.Common().StaticCallee() != nil {
					return cl.Common().StaticCallee().Name()
				}
				// the table may have been updated in place (pos[p] += …): still the same table
				return origin(ia.X, depth+1)
			}
		case *ssa.Call:
			if f := x.Common().StaticCallee(); f != nil {
				return f.Name()
			}
		}
		return ""
	}
	n := 0
	for _, fn := range allFuncs(pk.SSA) {
		for _, ci := range ir.Calls(fn, func(ci ssa.CallInstruction) bool {
			o := ir.CalleeObj(ci)
			return o != nil && o.Name() == "GetHash" && len(ci.Common().Args) >= 1
		}) {
			a := ci.Common().Args
			o := origin(a[len(a)-1], 0)
			if o != "getSubTreePos" && o != "getSubTreeSize" {
				continue
			}
			n++
			c.Touch(fn)
			c.Decide(o == "getSubTreePos", rule, fn, "node read at a sub-tree table entry uses the cumulative positions (getSubTreePos)", c.P.Rel(ci.Pos()),
				"the position is taken from "+o+"(): sub-tree SIZES are not positions in the node store; the folded hashes are those of other nodes and the served proof does not verify")
		}
	}
	c.Floor("node reads addressed through a sub-tree table", n, 4)
}
