package rules

import (
	"go/constant"
	"go/token"
	"go/types"

	"golang.org/x/tools/go/ssa"

	"polyverif/eng"
	"polyverif/ir"
)

// relGuard builds a guard "L rel R": it matches any comparison between a value
// satisfying isL and a value satisfying isR (in either operand order) and
// reports the edge on which the relation `rel` is implied (integers).
func relGuardExact(name string, isL, isR func(ssa.Value) bool, rel token.Token) eng.NamedGuard {
	return eng.NamedGuard{Name: name, G: func(cd ir.Cond) (bool, bool) {
		b, ok := cd.V.(*ssa.BinOp)
		if !ok {
			return false, false
		}
		var op token.Token
		switch {
		case isL(b.X) && isR(b.Y):
			op = b.Op
		case isL(b.Y) && isR(b.X):
			op = relMirror(b.Op)
		default:
			return false, false
		}
		if relImplies(op, rel) {
			return true, true
		}
		if relImplies(relNegate(op), rel) {
			return true, false
		}
		return false, false
	}}
}

func relMirror(op token.Token) token.Token {
	switch op {
	case token.LSS:
		return token.GTR
	case token.GTR:
		return token.LSS
	case token.LEQ:
		return token.GEQ
	case token.GEQ:
		return token.LEQ
	}
	return op
}

func relNegate(op token.Token) token.Token {
	switch op {
	case token.LSS:
		return token.GEQ
	case token.GTR:
		return token.LEQ
	case token.LEQ:
		return token.GTR
	case token.GEQ:
		return token.LSS
	case token.EQL:
		return token.NEQ
	case token.NEQ:
		return token.EQL
	}
	return token.ILLEGAL
}

func relImplies(op, rel token.Token) bool {
	if op == rel {
		return true
	}
	switch op {
	case token.LSS:
		return rel == token.LEQ || rel == token.NEQ
	case token.GTR:
		return rel == token.GEQ || rel == token.NEQ
	case token.EQL:
		return rel == token.LEQ || rel == token.GEQ
	}
	return false
}

func isConstInt(k int64) func(ssa.Value) bool {
	return func(v ssa.Value) bool { x, ok := ir.ConstInt(v); return ok && x == k }
}

// isLenOfField: len(<base>.field) with base satisfying isBase (nil = any).
func isLenOfField(field string, isBase func(ssa.Value) bool) func(ssa.Value) bool {
	return func(v ssa.Value) bool {
		cl, ok := ir.Strip(v).(*ssa.Call)
		if !ok {
			return false
		}
		b, ok := cl.Common().Value.(*ssa.Builtin)
		if !ok || b.Name() != "len" {
			return false
		}
		base, f, okf := fieldLoad(cl.Common().Args[0])
		return okf && f == field && (isBase == nil || isBase(base))
	}
}

func constInt64Val(v constant.Value) (int64, bool) { return constant.Int64Val(v) }

// evalConstInt folds an integer expression over constants (+, -, *).
func evalConstInt(v ssa.Value) (int64, bool) {
	v = ir.Strip(v)
	if k, ok := ir.ConstInt(v); ok {
		return k, true
	}
	b, ok := v.(*ssa.BinOp)
	if !ok {
		return 0, false
	}
	x, ok1 := evalConstInt(b.X)
	y, ok2 := evalConstInt(b.Y)
	if !ok1 || !ok2 {
		return 0, false
	}
	switch b.Op {
	case token.ADD:
		return x + y, true
	case token.SUB:
		return x - y, true
	case token.MUL:
		return x * y, true
	}
	return 0, false
}

// fieldStoresOn: stores to <base>.field in fn, base compared after stripping.
func fieldStoresOn(fn *ssa.Function, base ssa.Value, field string) []*ssa.Store {
	var out []*ssa.Store
	for _, b := range fn.Blocks {
		for _, in := range b.Instrs {
			st, ok := in.(*ssa.Store)
			if !ok {
				continue
			}
			fa, ok := st.Addr.(*ssa.FieldAddr)
			if ok && fieldNameOf(fa) == field && ir.Strip(fa.X) == base {
				out = append(out, st)
			}
		}
	}
	return out
}

// isFieldOf: (converted) load of <base>.field.
func isFieldOf(field string, isBase func(ssa.Value) bool) func(ssa.Value) bool {
	return func(v ssa.Value) bool {
		base, f, ok := fieldLoad(ir.Strip(v))
		return ok && f == field && (isBase == nil || isBase(base))
	}
}

// relGuard: relGuardExact extended by the equivalent comparisons against
// neighbouring integer constants — for integers x < k+1 ≡ x <= k and
// x >= k+1 ≡ x > k, and for a non-negative left side (a len(), an unsigned value)
// x < 1 ≡ x == 0 and x > 0 ≡ x >= 1 ≡ x != 0.  The right side's constant k is
// discovered by probing isR with constants near the one in the code; the
// implication "code's test ⇒ wanted relation" is decided by evaluating both
// threshold predicates on a window of integers around the two constants (outside
// the window both are constant).
func relGuard(name string, isL, isR func(ssa.Value) bool, rel token.Token) eng.NamedGuard {
	exact := relGuardExact(name, isL, isR, rel)
	return eng.NamedGuard{Name: name, G: func(cd ir.Cond) (bool, bool) {
		if ok, p := exact.G(cd); ok {
			return ok, p
		}
		b, ok := cd.V.(*ssa.BinOp)
		if !ok {
			return false, false
		}
		var l, r ssa.Value
		op := b.Op
		switch {
		case isL(b.X):
			l, r = b.X, b.Y
		case isL(b.Y):
			l, r, op = b.Y, b.X, relMirror(b.Op)
		default:
			return false, false
		}
		c, isK := ir.ConstInt(r)
		if !isK {
			return false, false
		}
		rc, _ := r.(*ssa.Const)
		if rc == nil {
			return false, false
		}
		// which constant does the wanted relation use?
		var k int64
		found := false
		for _, cand := range []int64{c + 1, c - 1, c} { // c itself: same constant, different operator (len > 0 fails ≡ len == 0)
			if isR(ssa.NewConst(constant.MakeInt64(cand), rc.Type())) {
				k, found = cand, true
			}
		}
		if !found {
			return false, false
		}
		nonneg := false
		if cl, isC := ir.Strip(l).(*ssa.Call); isC {
			if bi, isB := cl.Common().Value.(*ssa.Builtin); isB && (bi.Name() == "len" || bi.Name() == "cap") {
				nonneg = true
			}
		}
		if bt, isB := l.Type().Underlying().(*types.Basic); isB && bt.Info()&types.IsUnsigned != 0 {
			nonneg = true
		}
		eval := func(x int64, o token.Token, y int64) bool {
			switch o {
			case token.LSS:
				return x < y
			case token.LEQ:
				return x <= y
			case token.GTR:
				return x > y
			case token.GEQ:
				return x >= y
			case token.EQL:
				return x == y
			case token.NEQ:
				return x != y
			}
			return false
		}
		lo, hi := c, k
		if k < c {
			lo, hi = k, c
		}
		impliesOn := func(holds bool) bool {
			any := false
			for x := lo - 3; x <= hi+3; x++ {
				if nonneg && x < 0 {
					continue
				}
				if eval(x, op, c) == holds {
					any = true
					if !eval(x, rel, k) {
						return false
					}
				}
			}
			return any
		}
		switch op {
		case token.LSS, token.LEQ, token.GTR, token.GEQ, token.EQL, token.NEQ:
		default:
			return false, false
		}
		if impliesOn(true) {
			return true, true
		}
		if impliesOn(false) {
			return true, false
		}
		return false, false
	}}
}
