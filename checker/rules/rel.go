package rules

import (
	"go/constant"
	"go/token"

	"golang.org/x/tools/go/ssa"

	"polyverif/eng"
	"polyverif/ir"
)

// relGuard builds a guard "L rel R": it matches any comparison between a value
// satisfying isL and a value satisfying isR (in either operand order) and
// reports the edge on which the relation `rel` is implied (integers).
func relGuard(name string, isL, isR func(ssa.Value) bool, rel token.Token) eng.NamedGuard {
	return eng.NamedGuard{Name: name, G: func(cd ir.Cond) (bool, bool) {
		b, ok := cd.V.(*ssa.BinOp)
		if !ok {
			return false, false
		}
		var op token.Token
		switch {
		case isL(b.X) && isR(b.Y):
			op = b.Op
		case isL(b.Y) && isR(b.X):
			op = relMirror(b.Op)
		default:
			return false, false
		}
		if relImplies(op, rel) {
			return true, true
		}
		if relImplies(relNegate(op), rel) {
			return true, false
		}
		return false, false
	}}
}

func relMirror(op token.Token) token.Token {
	switch op {
	case token.LSS:
		return token.GTR
	case token.GTR:
		return token.LSS
	case token.LEQ:
		return token.GEQ
	case token.GEQ:
		return token.LEQ
	}
	return op
}

func relNegate(op token.Token) token.Token {
	switch op {
	case token.LSS:
		return token.GEQ
	case token.GTR:
		return token.LEQ
	case token.LEQ:
		return token.GTR
	case token.GEQ:
		return token.LSS
	case token.EQL:
		return token.NEQ
	case token.NEQ:
		return token.EQL
	}
	return token.ILLEGAL
}

func relImplies(op, rel token.Token) bool {
	if op == rel {
		return true
	}
	switch op {
	case token.LSS:
		return rel == token.LEQ || rel == token.NEQ
	case token.GTR:
		return rel == token.GEQ || rel == token.NEQ
	case token.EQL:
		return rel == token.LEQ || rel == token.GEQ
	}
	return false
}

func isConstInt(k int64) func(ssa.Value) bool {
	return func(v ssa.Value) bool { x, ok := ir.ConstInt(v); return ok && x == k }
}

// isLenOfField: len(<base>.field) with base satisfying isBase (nil = any).
func isLenOfField(field string, isBase func(ssa.Value) bool) func(ssa.Value) bool {
	return func(v ssa.Value) bool {
		cl, ok := ir.Strip(v).(*ssa.Call)
		if !ok {
			return false
		}
		b, ok := cl.Common().Value.(*ssa.Builtin)
		if !ok || b.Name() != "len" {
			return false
		}
		base, f, okf := fieldLoad(cl.Common().Args[0])
		return okf && f == field && (isBase == nil || isBase(base))
	}
}

func constInt64Val(v constant.Value) (int64, bool) { return constant.Int64Val(v) }

// evalConstInt folds an integer expression over constants (+, -, *).
func evalConstInt(v ssa.Value) (int64, bool) {
	v = ir.Strip(v)
	if k, ok := ir.ConstInt(v); ok {
		return k, true
	}
	b, ok := v.(*ssa.BinOp)
	if !ok {
		return 0, false
	}
	x, ok1 := evalConstInt(b.X)
	y, ok2 := evalConstInt(b.Y)
	if !ok1 || !ok2 {
		return 0, false
	}
	switch b.Op {
	case token.ADD:
		return x + y, true
	case token.SUB:
		return x - y, true
	case token.MUL:
		return x * y, true
	}
	return 0, false
}

// fieldStoresOn: stores to <base>.field in fn, base compared after stripping.
func fieldStoresOn(fn *ssa.Function, base ssa.Value, field string) []*ssa.Store {
	var out []*ssa.Store
	for _, b := range fn.Blocks {
		for _, in := range b.Instrs {
			st, ok := in.(*ssa.Store)
			if !ok {
				continue
			}
			fa, ok := st.Addr.(*ssa.FieldAddr)
			if ok && fieldNameOf(fa) == field && ir.Strip(fa.X) == base {
				out = append(out, st)
			}
		}
	}
	return out
}

// isFieldOf: (converted) load of <base>.field.
func isFieldOf(field string, isBase func(ssa.Value) bool) func(ssa.Value) bool {
	return func(v ssa.Value) bool {
		base, f, ok := fieldLoad(ir.Strip(v))
		return ok && f == field && (isBase == nil || isBase(base))
	}
}
