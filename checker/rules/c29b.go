package rules

import (
	"go/token"

	"golang.org/x/tools/go/ssa"

	"polyverif/core"
	"polyverif/eng"
	"polyverif/ir"
)

// C29 (continued) — the recent-signer scan.  SyncBlockHeader rejects a header
// whose number lies within limit = len(phv.Validators)/2 of lastSeenHeight.
// lastSeenHeight is produced by the scan in getPrevHeightAndValidators: the
// direct parent, then a deferred closure walking further ancestors.  The
// scan can only report a signer it visits, so the number of ancestors visited
// must be at least the enforcement window: the closure's loop bound is
// X/2 − 1 with X >= len(phv.Validators) on every path (X is
// len(phv.Validators) itself or max(len(phv.Validators), ·)).

// lenOfCellField matches len((*cell).field) where cell is a free variable or
// named-result cell with the given name.
func lenOfCellField(v ssa.Value, field string) (cell string, ok bool) {
	cl, isCall := v.(*ssa.Call)
	if !isCall {
		return "", false
	}
	b, isB := cl.Common().Value.(*ssa.Builtin)
	if !isB || b.Name() != "len" {
		return "", false
	}
	ld, isLd := cl.Common().Args[0].(*ssa.UnOp)
	if !isLd || ld.Op != token.MUL {
		return "", false
	}
	fa, isFa := ld.X.(*ssa.FieldAddr)
	if !isFa || fieldNameOf(fa) != field {
		return "", false
	}
	base, isBase := fa.X.(*ssa.UnOp)
	if !isBase || base.Op != token.MUL {
		return "", false
	}
	switch x := base.X.(type) {
	case *ssa.FreeVar:
		return x.Name(), true
	case *ssa.Alloc:
		return x.Comment, true
	}
	return "", false
}

// atLeastLenOf: v >= len(<cell>.Validators) on every path: v is that count, or the
// two-way maximum of two validator counts one of which is that count.
func atLeastLenOf(v ssa.Value, cell string) (bool, string) {
	if n, ok := lenOfCellField(v, "Validators"); ok {
		return n == cell, "len(" + n + ".Validators)"
	}
	phi, ok := v.(*ssa.Phi)
	if !ok || len(phi.Edges) != 2 {
		return false, "not a len or a two-way maximum"
	}
	for i := 0; i < 2; i++ {
		// kept operand a flows from the comparison block, replacement b from a block entered only when a < b
		a, b := phi.Edges[i], phi.Edges[1-i]
		an, oka := lenOfCellField(a, "Validators")
		bn, okb := lenOfCellField(b, "Validators")
		if !oka || !okb {
			return false, "operands are not validator counts"
		}
		pred := phi.Block().Preds[1-i]
		if len(pred.Preds) != 1 || phi.Block().Preds[i] != pred.Preds[0] {
			continue
		}
		top := pred.Preds[0]
		iff, okIf := top.Instrs[len(top.Instrs)-1].(*ssa.If)
		if !okIf {
			continue
		}
		cmp, okC := iff.Cond.(*ssa.BinOp)
		if !okC {
			continue
		}
		onTrue := top.Succs[0] == pred
		ln, lok := lenOfCellField(cmp.X, "Validators")
		rn, rok := lenOfCellField(cmp.Y, "Validators")
		if !lok || !rok {
			continue
		}
		// replacement edge must imply b >= a, kept edge then implies a >= b (strict or not)
		isMax := false
		switch {
		case ln == an && rn == bn:
			isMax = (onTrue && (cmp.Op == token.LSS || cmp.Op == token.LEQ)) || (!onTrue && (cmp.Op == token.GTR || cmp.Op == token.GEQ))
		case ln == bn && rn == an:
			isMax = (onTrue && (cmp.Op == token.GTR || cmp.Op == token.GEQ)) || (!onTrue && (cmp.Op == token.LSS || cmp.Op == token.LEQ))
		}
		desc := "max(len(" + an + ".Validators), len(" + bn + ".Validators)) via " + cmp.Op.String()
		if !isMax {
			return false, "phi of " + an + "/" + bn + " counts is not their maximum (comparison " + cmp.Op.String() + ")"
		}
		return an == cell || bn == cell, desc
	}
	return false, "not a recognised maximum"
}

func checkPosaScanDepth(c *core.Ctx, pkg string, sync *ssa.Function, gpCall func(v ssa.Value) (idx int, ok bool)) {
	gp := c.Fn(pkg, "getPrevHeightAndValidators")
	if gp == nil {
		return
	}
	res := gp.Signature.Results()
	if res.Len() != 4 || res.At(0).Name() == "" || res.At(2).Name() != "lastSeenHeight" {
		c.Broken("C29.recent-signer-scan", gp, "results (phv, pphv, lastSeenHeight, err)", c.P.Rel(gp.Pos()), "signature changed")
		return
	}
	cells := map[string]bool{}
	// (1) the enforcement window in SyncBlockHeader is len(<result 0>.Validators)/2
	nWin := 0
	// the comparison may stand in SyncBlockHeader or in a small predicate helper it branches on (the helper's
	// parameters are bound to the call's arguments; integer conversions are looked through)
	peel := func(v ssa.Value) ssa.Value {
		for i := 0; i < 6; i++ {
			v = ir.Strip(v)
			cv, isCv := v.(*ssa.Convert)
			if !isCv {
				break
			}
			v = cv.X
		}
		return v
	}
	winSites, releaseWin := cmpSites(sync)
	defer releaseWin()
	for _, st := range winSites {
		b := st.B
		if b.Op != token.LEQ {
			continue
		}
		add, isAdd := b.Y.(*ssa.BinOp)
		if !isAdd || add.Op != token.ADD {
			continue
		}
		if i, ok := gpCall(add.X); !ok || i != 2 {
			continue
		}
		nWin++
		okW := false
		if q, isQ := peel(add.Y).(*ssa.BinOp); isQ && q.Op == token.QUO {
			if k, okk := ir.ConstInt(q.Y); okk && k == 2 {
				if ln, isLen := peel(q.X).(*ssa.Call); isLen {
					if bi, isB := ln.Common().Value.(*ssa.Builtin); isB && bi.Name() == "len" {
						if base, f, okf := fieldLoad(ln.Common().Args[0]); okf && f == "Validators" {
							okW = true
							for _, leaf := range eng.PhiLeaves(nil, base) {
								if i, ok := gpCall(leaf); ok && (i == 0 || i == 1) {
									cells[res.At(i).Name()] = true
								} else {
									okW = false
								}
							}
						}
					}
				}
			}
		}
		c.Decide(okW, "C29.recent-signer-scan", sync, "window = len(W.Validators)/2 with W one of the two sets returned by getPrevHeightAndValidators", c.P.Rel(b.Pos()), "")
	}
	if nWin == 0 {
		c.Broken("C29.recent-signer-scan", sync, "recent-signer window comparison", c.P.Rel(sync.Pos()), "not found")
	}
	// (2) every closure loop that can set lastSeenHeight scans at least window−1 further ancestors
	nLoops := 0
	for _, an := range gp.AnonFuncs {
		for _, b := range an.Blocks {
			iff, ok := b.Instrs[len(b.Instrs)-1].(*ssa.If)
			if !ok {
				continue
			}
			cmp, ok := iff.Cond.(*ssa.BinOp)
			if !ok || cmp.Op != token.LSS {
				continue
			}
			if _, isPhi := cmp.X.(*ssa.Phi); !isPhi {
				continue
			}
			sub, ok := cmp.Y.(*ssa.BinOp)
			if !ok {
				continue
			}
			nLoops++
			okD, why := false, "bound is not X/2 − 1"
			if k, okk := ir.ConstInt(sub.Y); sub.Op == token.SUB && okk && k == 1 {
				if q, isQ := sub.X.(*ssa.BinOp); isQ && q.Op == token.QUO {
					if k2, ok2 := ir.ConstInt(q.Y); ok2 && k2 == 2 {
						okD = len(cells) > 0
						for cell := range cells {
							ok1, w := atLeastLenOf(q.X, cell)
							okD, why = okD && ok1, w
						}
					}
				}
			}
			c.Decide(okD, "C29.recent-signer-scan", an, "ancestor scan bound = X/2 − 1 with X >= len(W.Validators) for every set W the window may be taken from", c.P.Rel(cmp.Pos()), why)
		}
	}
	if nLoops == 0 {
		c.Broken("C29.recent-signer-scan", gp, "deferred ancestor scan loop", c.P.Rel(gp.Pos()), "not found")
	}
	// (3) the direct parent is inspected before the scan: a store to lastSeenHeight in the body under Coinbase equality
	nDirect := 0
	for _, b := range gp.Blocks {
		for _, in := range b.Instrs {
			st, ok := in.(*ssa.Store)
			if !ok {
				continue
			}
			if al, isAl := st.Addr.(*ssa.Alloc); isAl && al.Comment == "lastSeenHeight" {
				if _, isConst := st.Val.(*ssa.Const); !isConst {
					nDirect++
				}
			}
		}
	}
	c.Decide(nDirect >= 1, "C29.recent-signer-scan", gp, "the direct parent's signer is recorded in lastSeenHeight", c.P.Rel(gp.Pos()), sprintf("%d non-constant stores", nDirect))
}
