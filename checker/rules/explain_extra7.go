package rules

import "polyverif/core"

// Clauses added in the seventh round of seeded changes (DESIGN 11.7, "Round 7").
func init() {
	add := core.AddExplain
	add("C04", "optional-tail: where the LAST write of a Serialization stands under a condition (a field written only past a fork height), the last read of the matching Deserialization does not turn end-of-input into an error (the contract can still read what it stored before the fork).")
	add("C05", "elements-fresh: an address appended to a list inside a decoding loop is allocated inside that loop (one object per element, no hoisted `var h Header`); write: Checksum is Sum256 applied twice, directly or through a forwarding helper.")
	add("C08", "persist-before-publish: in CompactMerkleTree.appendHash no hashStore.Append / Flush is reachable after the treeSize update (the size that admits proof requests is published only after the nodes are in the store; proof serving takes no lock against block saving).")
	add("C10", "reset-discards: the loop of MemDB.Reset that clears the head links is bounded by the constant tMaxHeight (all levels), not by a field Reset has just lowered.")
	add("C11", "sort-comparators-alive: every test of a three-way comparison (big.Int.Cmp, bytes.Compare, strings.Compare) in native/…, core/store/…, core/types holds for one or two of the answers −1, 0, +1 (a comparator `Cmp > 1` is constantly false and leaves map-ordered values unsorted).")
	add("C12", "replay-writes-cross-states: AddCrossStates is reachable from recoverStore's replay and, where saveBlockToStateStore calls it, stands on every path to its completion.")
	add("C13", "height-index-follows-commit: saveBlockToBlockStore calls setHeaderIndex(height, block.Hash()) on every path (a header announced earlier for that height does not keep the slot); next-height: the equality may be the conjunction of the two one-sided tests.")
	add("C14", "non-vbft arm: the NextBookkeeper compared with AddressFromBookkeepers(header.Bookkeepers) is a field of the header looked up by a call (the accepted previous header), never of the header under verification.")
	add("C16", "shared-values-immutable: in native/… no package-level *big.Int (directly, through a phi, through BigMax/BigMin or through the receiver-returning big.Int methods) is the receiver of a mutating big.Int method outside init functions.")
	add("C17", "per-chain-span: the polygon span record is keyed by ctx.ChainID in both putSpan and getSpan.")
	add("C18", "witness-address: Transaction.GetSignatureAddresses and checkTransactionSignatures never derive an address with AddressFromBookkeepers (a signature program's address comes from its own keys and M).")
	add("C21", "blacklist-id-64-bit: the id handed to PutBlackChain / RemoveBlackChain by BlackChain / WhiteChain does not pass through an integer narrower than 64 bits, and BlackChainParam.ChainID is a uint64.")
	add("C22", "leaf-written-on-replay: the C12 replay rule, decided here for 'exactly one leaf per accepted import' after a crash between the block-store and state-store commits.")
	add("C24", "epoch-of-that-height: the ONT key-height list is stored strictly descending and FindKeyHeight answers the first element below the height (shared with C31).")
	add("C25", "vote-id: in both vote routers the id handed to CheckVotes is the hash of an EntranceParam whose SourceChainID, Height AND Extra are the request's own fields (votes are tallied per payload).")
	add("C26", "bounds-from-config: the CoinSelector built by chooseUtxos takes mc from btcTxParam.MinChange and feeRate from btcTxParam.FeeRate.")
	add("C28", "era-by-height: every value isLondon returns is the constant true, a comparison Number >= height itself, or stands on the fail edge of such a comparison (at or past the fork height the answer is true whatever else the header carries).")
	add("C30", "ics23-existence: CommitmentOp.Run answers a root only when len(args) == 0 or after VerifyMembership(…, op.Key, args[0]) == true: what is verified is decided by the caller's arguments, not by the kind of proof embedded.")
	add("C32", "cleared-stays-cleared: in CheckConsensusSigns the sign record is never written by a deferred call and no putConsensusSigns is reachable after deleteConsensusSigns.")
	add("C34", "index-record: the value put under peerIndex‖pubkey in ApproveCandidate is GetUint32Bytes of the index stored into the pool entry.")
	add("C36", "permitted-from-node-keys: every key inserted into the permitted map by UpdatePermittedAddrMap is AddressFromPubKey(node key) or the AddressFromBookkeepers operator address.")
	add("C38", "clean: IncrementValidator.Clean resets blocks and sets baseHeight to 0 on every path.")
	add("C40", "proposers-installed: every successful return of buildParticipantConfig passes a store to cfg.Proposers.")
}
