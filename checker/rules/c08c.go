package rules

import (
	"go/token"
	"strings"

	"golang.org/x/tools/go/ssa"

	"polyverif/core"
	"polyverif/eng"
	"polyverif/ir"
)

// crossRootAssigned: every value stored into result.CrossStatesRoot in fn is
// either the empty hash or HashFullTreeWithLeafHash(result.CrossHashes) computed
// under len(result.CrossHashes) != 0 — directly, through a phi, or through a
// module helper handed result.CrossHashes (its parameters are bound to the call's
// arguments while its returns are inspected).  At least one store must carry the
// tree hash.
func crossRootAssigned(c *core.Ctx, rule string, fn *ssa.Function) (bool, string) {
	stores := allFieldStores(fn, "CrossStatesRoot")
	if len(stores) == 0 {
		return false, "no store into CrossStatesRoot"
	}
	nHash := 0
	why := ""
	var val func(host *ssa.Function, v ssa.Value, depth int) bool
	val = func(host *ssa.Function, v ssa.Value, depth int) bool {
		if globalName(v) == "UINT256_EMPTY" {
			return true
		}
		if p, ok := v.(*ssa.Phi); ok {
			for _, e := range p.Edges {
				if !val(host, e, depth) {
					return false
				}
			}
			return true
		}
		cl, idx := ir.CallOf(v)
		if cl == nil {
			why = "stored value is neither the tree hash nor the empty hash: " + v.String()
			return false
		}
		if o := ir.CalleeObj(cl); o != nil && o.Name() == "HashFullTreeWithLeafHash" {
			a := cl.Common().Args
			if !isFieldNamed(a[len(a)-1], "CrossHashes") {
				why = "the tree hash is not computed over result.CrossHashes"
				return false
			}
			eng.Dominates(c, rule, host, relGuard("len(result.CrossHashes) != 0", isLenOfField("CrossHashes", nil), isConstInt(0), token.NEQ),
				[]ir.Sink{{Instr: cl, Note: "root computation"}}, "root over the produced leaves", nil)
			nHash++
			return true
		}
		h := cl.Common().StaticCallee()
		if depth >= 2 || h == nil || len(h.Blocks) == 0 || h.Pkg == nil || h.Pkg.Pkg == nil || !strings.HasPrefix(h.Pkg.Pkg.Path(), ir.Mod) {
			why = "stored value comes from " + cl.String()
			return false
		}
		if idx < 0 {
			idx = 0
		}
		defer ir.BindParams(h, cl.Common().Args)()
		n := 0
		for _, b := range h.Blocks {
			ret, ok := b.Instrs[len(b.Instrs)-1].(*ssa.Return)
			if !ok || idx >= len(ret.Results) {
				continue
			}
			if !val(h, ret.Results[idx], depth+1) {
				return false
			}
			n++
		}
		return n > 0
	}
	for _, st := range stores {
		if !val(fn, st.Val, 0) {
			return false, why
		}
	}
	if nHash == 0 {
		return false, "no store carries HashFullTreeWithLeafHash(result.CrossHashes)"
	}
	return true, ""
}
