package rules

import (
	"go/token"
	"go/types"
	"strings"

	"golang.org/x/tools/go/ssa"

	"polyverif/core"
	"polyverif/eng"
	"polyverif/ir"
)

// Rules added for the seventh round of seeded changes.  Each is a structural necessary condition of the
// property it is registered under; what it does not decide is said in the property's Explain string.

// callOnEveryCompletion: every completion of fn (success return, or any return of a procedure) is reached
// only after a call satisfying pred — directly or through a module helper (ir.CallsThrough, depth 2) — on
// EVERY path, i.e. the call does not stand under a condition.
func callOnEveryCompletion(c *core.Ctx, rule string, fn *ssa.Function, what string, pred func(ssa.CallInstruction) bool, why string) {
	if fn == nil {
		return
	}
	sites := ir.CallsThrough(fn, pred, 2)
	c.Floor(what+" in "+fn.Name(), len(sites), 1)
	if len(sites) == 0 {
		return
	}
	eng.MustPassCall(c, rule, fn, what, func(ci ssa.CallInstruction) bool {
		for _, s := range sites {
			if s == ci {
				return true
			}
		}
		return false
	}, ir.SuccessSinks(fn), "completion of "+fn.Name()+" ("+why+")", nil)
}

// C13: a committed block is found under its height: saveBlockToBlockStore re-points the height→hash index
// unconditionally (a header announced earlier for the same height must not keep the slot).
func checkCommitRepointsHeightIndex(c *core.Ctx, rule string) {
	fn := c.Fn(pkLedger, "LedgerStoreImp.saveBlockToBlockStore")
	shi := eng.Obj(c, pkLedger, "LedgerStoreImp.setHeaderIndex")
	if fn == nil || shi == nil {
		return
	}
	callOnEveryCompletion(c, rule, fn, "setHeaderIndex(height, hash of the committed block)", eng.CallPred(shi), "the height index names the committed block, whatever was announced before")
	for _, ci := range ir.CallsTo(fn, shi) {
		a := ci.Common().Args
		h := calleeNamed(a[len(a)-1], "Hash")
		c.Decide(h != nil, rule, fn, "the hash indexed is block.Hash()", c.P.Rel(ci.Pos()), "")
	}
}

// C22 (and C12): the leaf list of a block's cross-state tree is written by the same function that replays
// the block after a crash (saveBlockToStateStore, the one recoverStore calls), not only on the live path.
func checkCrossStatesWrittenOnReplay(c *core.Ctx, rule string) {
	fn := c.Fn(pkLedger, "LedgerStoreImp.saveBlockToStateStore")
	acs := eng.Obj(c, pkLedger, "StateStore.AddCrossStates")
	rec := c.Fn(pkLedger, "LedgerStoreImp.recoverStore")
	if fn == nil || acs == nil || rec == nil {
		return
	}
	// whatever recoverStore replays a block through must pass AddCrossStates
	replay := ir.CallsThrough(rec, eng.CallPred(acs), 2)
	c.Decide(len(replay) > 0, rule, rec, "crash replay writes the block's cross-state leaves and root (AddCrossStates reachable from recoverStore's replay)", c.P.Rel(rec.Pos()), "a block replayed after a crash keeps its outbound requests but loses their leaves")
	if len(ir.CallsThrough(fn, eng.CallPred(acs), 2)) > 0 {
		callOnEveryCompletion(c, rule, fn, "AddCrossStates", eng.CallPred(acs), "the state batch of a block always carries its cross-state leaves")
	}
}

// C40: buildParticipantConfig hands out exactly the first C+1 proposers: the assignment of cfg.Proposers
// stands on every successful path (a list that is "already short enough" must still be installed).
func checkProposersAlwaysInstalled(c *core.Ctx, rule string) {
	fn := c.Fn(pkVbft, "Server.buildParticipantConfig")
	if fn == nil {
		return
	}
	var stores []ssa.Instruction
	for _, st := range fieldStores(fn, nil, "Proposers") {
		stores = append(stores, st)
	}
	c.Floor("stores to cfg.Proposers in buildParticipantConfig", len(stores), 1)
	r := ir.NewReach(fn)
	for _, st := range stores {
		r.Barrier[st] = true
	}
	r.Run(nil)
	leak := ""
	for _, s := range ir.SuccessSinks(fn) {
		if r.SinkReachable(s) {
			leak = "success return at " + c.P.Rel(s.Instr.Pos()) + " reachable without installing the proposer list"
		}
	}
	c.Decide(leak == "", rule, fn, "every successful configuration installs its proposer list", c.P.Rel(fn.Pos()), leak)
}

// C38: Clean forgets everything: it resets the block list AND the base height on every path (an empty
// tracker anchored at the old base refuses start heights below it).
func checkCleanResetsBase(c *core.Ctx, rule string) {
	fn := c.Fn(pkIncr, "IncrementValidator.Clean")
	if fn == nil {
		return
	}
	for _, field := range []string{"blocks", "baseHeight"} {
		sts := storesToField(fn, fn.Params[0], field)
		r := ir.NewReach(fn)
		for _, st := range sts {
			r.Barrier[st] = true
		}
		// a same-receiver helper that performs the reset counts at its call site
		nVia := 0
		for _, ci := range ir.Calls(fn, nil) {
			h := ci.Common().StaticCallee()
			if h == nil || h.Pkg != fn.Pkg || h.Signature.Recv() == nil || len(h.Blocks) == 0 || len(ci.Common().Args) == 0 || ir.Strip(ci.Common().Args[0]) != ssa.Value(fn.Params[0]) {
				continue
			}
			hs := storesToField(h, h.Params[0], field)
			if len(hs) == 0 {
				continue
			}
			hr := ir.NewReach(h)
			for _, st := range hs {
				hr.Barrier[st] = true
			}
			hr.Run(nil)
			all := true
			for _, s := range ir.SuccessSinks(h) {
				if hr.SinkReachable(s) {
					all = false
				}
			}
			if all {
				r.Barrier[ci] = true
				nVia++
				if field == "baseHeight" {
					sts = append(sts, hs...)
				}
			}
		}
		r.Run(nil)
		leak := len(sts) == 0 && nVia == 0
		for _, s := range ir.SuccessSinks(fn) {
			if r.SinkReachable(s) {
				leak = true
			}
		}
		okZero := true
		if field == "baseHeight" {
			for _, st := range sts {
				if k, isK := ir.ConstInt(st.Val); !isK || k != 0 {
					okZero = false
				}
			}
		}
		c.Decide(!leak && okZero, rule, fn, "Clean resets "+field+" on every path", c.P.Rel(fn.Pos()), "")
	}
}

// C10: "resetting a layer discards them": MemDB.Reset clears the head link of EVERY level — the clearing loop
// is bounded by the compile-time maximum height, not by a field Reset itself has just lowered.
func checkResetClearsAllLevels(c *core.Ctx, rule string) {
	fn := c.Fn("core/store/overlaydb", "MemDB.Reset")
	if fn == nil {
		return
	}
	maxH, err := c.P.Const("core/store/overlaydb", "tMaxHeight")
	if err != nil {
		c.Broken(rule, fn, "constant tMaxHeight", c.P.Rel(fn.Pos()), "not found")
		return
	}
	n, ok := 0, true
	for _, cd := range ir.Conds(fn) {
		b, isB := cd.V.(*ssa.BinOp)
		if !isB {
			continue
		}
		var idx, bound ssa.Value
		switch b.Op {
		case token.LSS, token.LEQ:
			idx, bound = b.X, b.Y
		case token.GTR, token.GEQ:
			idx, bound = b.Y, b.X
		default:
			continue
		}
		if _, isPhi := idx.(*ssa.Phi); !isPhi {
			continue
		}
		n++
		k, isK := bound.(*ssa.Const)
		if !isK || k.Value == nil || k.Value.ExactString() != maxH.ExactString() || b.Op == token.LEQ || b.Op == token.GEQ {
			ok = false
		}
	}
	c.Decide(n >= 1 && ok, rule, fn, "the loop clearing the head links runs over all tMaxHeight levels", c.P.Rel(fn.Pos()), "")
}

var _ = types.Typ

// C18: the bookkeeper-style address (threshold n−⌊(n−1)/3⌋ implied by the key count) is derived only where
// a whole validator / bookkeeper set is meant.  A transaction's signature program carries its own threshold:
// deriving ITS address that way attributes a 1-of-n program the operator's address.
func checkSigProgramAddressNotBookkeeperStyle(c *core.Ctx, rule string) {
	afb := eng.Obj(c, pkTypes, "AddressFromBookkeepers")
	if afb == nil {
		return
	}
	n := 0
	for _, spec := range []struct{ pkg, fn string }{{pkTypes, "Transaction.GetSignatureAddresses"}, {pkValidation, "checkTransactionSignatures"}} {
		fn := c.Fn(spec.pkg, spec.fn)
		if fn == nil {
			continue
		}
		n++
		sites := ir.CallsThrough(fn, eng.CallPred(afb), 2)
		pos := c.P.Rel(fn.Pos())
		if len(sites) > 0 {
			pos = c.P.Rel(sites[0].Pos())
		}
		c.Decide(len(sites) == 0, rule, fn, "the address of a signature program is derived from its own (keys, M), never bookkeeper-style from the key count", pos, "an entry with M below n−⌊(n−1)/3⌋ would witness the address of the whole key set (the consensus operator's, for the validator keys)")
	}
	c.Floor("functions deriving signer addresses", n, 2)
}

// literalFieldValue: the value stored into field `name` of the struct allocated as `al`.
func literalFieldValue(al *ssa.Alloc, name string) ssa.Value {
	if al.Referrers() == nil {
		return nil
	}
	var out ssa.Value
	for _, r := range *al.Referrers() {
		fa, ok := r.(*ssa.FieldAddr)
		if !ok || fieldNameOf(fa) != name || fa.Referrers() == nil {
			continue
		}
		for _, r2 := range *fa.Referrers() {
			if st, isSt := r2.(*ssa.Store); isSt && st.Addr == ssa.Value(fa) {
				out = st.Val
			}
		}
	}
	return out
}

// C26: the selector's minimum-change bound is the configured MinChange of the redeem key (and its fee rate
// the configured FeeRate): the two uint64 fields of the same record are not interchangeable.
func checkSelectorBoundsFromConfig(c *core.Ctx, rule string) {
	fn := c.Fn("native/service/cross_chain_manager/btc", "chooseUtxos")
	if fn == nil {
		return
	}
	n := 0
	hosts, release := hostsWithHelpers(fn)
	defer release()
	for _, h := range hosts {
		for _, b := range h.Blocks {
			for _, in := range b.Instrs {
				al, ok := in.(*ssa.Alloc)
				if !ok || !al.Heap {
					continue
				}
				pt, isP := al.Type().Underlying().(*types.Pointer)
				if !isP {
					continue
				}
				nt, isN := pt.Elem().(*types.Named)
				if !isN || nt.Obj().Name() != "CoinSelector" {
					continue
				}
				n++
				for _, pair := range [][2]string{{"mc", "MinChange"}, {"feeRate", "FeeRate"}} {
					v := literalFieldValue(al, pair[0])
					ok := false
					if v != nil {
						_, f, isF := fieldLoad(ir.Strip(v))
						ok = isF && f == pair[1]
					}
					c.Decide(ok, rule, fn, "CoinSelector."+pair[0]+" = btcTxParam."+pair[1], c.P.Rel(al.Pos()), "")
				}
			}
		}
	}
	c.Floor("CoinSelector constructions in chooseUtxos", n, 1)
}

// C36: the permitted set holds the addresses of the consensus NODE KEYS (AddressFromPubKey of the pool's
// key) and the operator address — not the owner wallets that registered them.
func checkPermittedSetFromNodeKeys(c *core.Ctx, rule string) {
	fn := c.Fn("http/base/actor", "UpdatePermittedAddrMap")
	afp := eng.Obj(c, pkTypes, "AddressFromPubKey")
	afb := eng.Obj(c, pkTypes, "AddressFromBookkeepers")
	if fn == nil || afp == nil || afb == nil {
		return
	}
	n := 0
	hosts, release := hostsWithHelpers(fn)
	defer release()
	for _, h := range hosts {
		for _, b := range h.Blocks {
			for _, in := range b.Instrs {
				mu, ok := in.(*ssa.MapUpdate)
				if !ok {
					continue
				}
				if pm, isParam := ir.Strip(mu.Map).(*ssa.Parameter); !isParam || pm.Parent() != fn {
					continue // the set is the map handed in by the pool
				}
				n++
				key := ir.Strip(mu.Key)
				if al, isAl := key.(*ssa.Alloc); isAl && ir.SingleStore(al) != nil {
					key = ir.Strip(ir.SingleStore(al))
				}
				okKey := isCallTo(key, afp) || isCallTo(key, afb)
				c.Decide(okKey, rule, fn, "a permitted address is AddressFromPubKey(node key) or the operator address", c.P.Rel(mu.Pos()), "")
			}
		}
	}
	c.Floor("insertions into permittedAddrMap", n, 2)
}

func isGlobalNamed(v ssa.Value, name string) bool {
	v = ir.Strip(v)
	if u, ok := v.(*ssa.UnOp); ok {
		v = u.X
	}
	g, ok := v.(*ssa.Global)
	return ok && g.Name() == name
}

// C21: chain ids are 64-bit from the wire to the blacklist key: the id handed to PutBlackChain /
// RemoveBlackChain is the decoded parameter itself, never a value widened back from a narrower integer
// (two ids equal modulo 2^32 would share one entry).
func checkBlacklistIdNotNarrowed(c *core.Ctx, rule string) {
	n := 0
	for _, name := range []string{"BlackChain", "WhiteChain"} {
		fn := c.Fn(pkCCM, name)
		if fn == nil {
			continue
		}
		for _, ci := range ir.Calls(fn, func(ci ssa.CallInstruction) bool {
			o := ir.CalleeObj(ci)
			return o != nil && (o.Name() == "PutBlackChain" || o.Name() == "RemoveBlackChain")
		}) {
			n++
			a := ci.Common().Args
			c.Decide(!widenedFromNarrower(a[len(a)-1], 0), rule, fn, "the chain id recorded is the 64-bit id of the request", c.P.Rel(ci.Pos()), "the id passes through an integer narrower than 64 bits")
		}
	}
	c.Floor("blacklist writes in BlackChain / WhiteChain", n, 2)
	// the parameter's field is 64-bit
	if obj, err := c.P.Obj(pkCCMCom, "BlackChainParam"); err == nil {
		if st, ok := obj.Type().Underlying().(*types.Struct); ok {
			for i := 0; i < st.NumFields(); i++ {
				if st.Field(i).Name() == "ChainID" {
					b, isB := st.Field(i).Type().Underlying().(*types.Basic)
					c.Decide(isB && b.Kind() == types.Uint64, rule, "BlackChainParam", "BlackChainParam.ChainID is a uint64", c.P.Rel(st.Field(i).Pos()), st.Field(i).Type().String())
				}
			}
		}
	}
}

// widenedFromNarrower: v is (through conversions / loads / phis) a conversion from an integer type of
// fewer than 64 bits.
func widenedFromNarrower(v ssa.Value, depth int) bool {
	if depth > 6 || v == nil {
		return false
	}
	switch x := v.(type) {
	case *ssa.Convert:
		if b, ok := x.X.Type().Underlying().(*types.Basic); ok && b.Info()&types.IsInteger != 0 {
			switch b.Kind() {
			case types.Uint64, types.Int64, types.UntypedInt:
			default:
				return true
			}
		}
		return widenedFromNarrower(x.X, depth+1)
	case *ssa.ChangeType:
		return widenedFromNarrower(x.X, depth+1)
	case *ssa.Phi:
		for _, e := range x.Edges {
			if widenedFromNarrower(e, depth+1) {
				return true
			}
		}
	case *ssa.UnOp:
		if b, ok := x.Type().Underlying().(*types.Basic); ok && b.Info()&types.IsInteger != 0 {
			switch b.Kind() {
			case types.Uint64, types.Int64:
			default:
				return true
			}
		}
	}
	return false
}

// C34: the per-key index record written for a first-time candidate holds the very index the pool entry got
// (a returning key is given its recorded index back: a record one off collides with the next key's index).
func checkIndexRecordMatchesEntry(c *core.Ctx, rule string) {
	fn := c.Fn("native/service/governance/node_manager", "ApproveCandidate")
	if fn == nil {
		return
	}
	n := 0
	sites, err := eng.KeySitesIn(c.P, fn, 2)
	if err != nil {
		c.Broken(rule, fn, "key sites", "", err.Error())
		return
	}
	for _, site := range sites {
		isIdx := false
		for _, a := range site.Shape {
			if a.Lit == "peerIndex" {
				isIdx = true
			}
		}
		if site.Op != "Put" || !isIdx || len(site.Call.Common().Args) < 2 {
			continue
		}
		n++
		h := site.Fn
		args := site.Call.Common().Args
		val := args[len(args)-1]
		ok := false
		if g := calleeNamed(val, "GenRawStorageItem"); g != nil {
			if b := calleeNamed(g.Common().Args[0], "GetUint32Bytes"); b != nil {
				x := ir.Strip(b.Common().Args[0])
				if _, f, isF := fieldLoad(x); isF && f == "Index" {
					ok = true
				} else {
					for _, st := range fieldStores(h, nil, "Index") {
						if ir.Strip(st.(*ssa.Store).Val) == x && st.Block().Dominates(site.Call.Block()) {
							ok = true
						}
					}
					// recorded in a helper that hands the recorded index back: the caller stores exactly
					// that answer into the entry
					if !ok && h != fn && site.TopCall != nil {
						answers := true
						after := ir.NewReach(h)
						after.Run(site.Call)
						for _, sk := range ir.SuccessSinks(h) {
							if !after.SinkReachable(sk) {
								continue // a return of the branch that found an index already recorded
							}
							ret, isRet := sk.Instr.(*ssa.Return)
							if !isRet || len(ret.Results) == 0 || ir.Strip(ret.Results[0]) != x {
								answers = false
							}
						}
						if answers {
							for _, st := range fieldStores(fn, nil, "Index") {
								for _, leaf := range eng.PhiLeaves(nil, st.(*ssa.Store).Val) {
									if cl, idx := ir.CallOf(leaf); cl != nil && idx <= 0 && ssa.CallInstruction(cl) == site.TopCall {
										ok = true
									}
								}
							}
						}
					}
				}
			}
		}
		c.Decide(ok, rule, fn, "the index recorded for the key is the index assigned to its pool entry", c.P.Rel(site.Call.Pos()), "")
	}
	c.Floor("index-record writes in ApproveCandidate", n, 1)
}

// C11 (map-iteration clause): values collected from a map reach the state only after a sort whose comparator
// can actually order them.  A three-way comparison (big.Int.Cmp, bytes.Compare, strings.Compare) answers
// −1, 0 or +1: a test of that answer which holds for none (or all) of the three is dead — `x.Cmp(y) > 1`
// leaves a sort.Slice comparator constantly false and the "sorted" list in map order.
func checkThreeWayTestsAlive(c *core.Ctx, rule string, pkgPrefixes ...string) {
	n := 0
	seen := map[*ssa.BinOp]bool{}
	for _, fn := range funcsOfPkgs(c, pkgPrefixes...) {
		for _, f := range ir.WithClosures(fn) {
			for _, b := range f.Blocks {
				for _, in := range b.Instrs {
					cmp, ok := in.(*ssa.BinOp)
					if !ok || seen[cmp] {
						continue
					}
					seen[cmp] = true
					x, k := cmp.X, cmp.Y
					op := cmp.Op
					if _, isK := x.(*ssa.Const); isK {
						x, k = k, x
						op = relMirror(op)
					}
					kv, isK := ir.ConstInt(k)
					cl, isCall := x.(*ssa.Call)
					if !isK || !isCall {
						continue
					}
					o := ir.CalleeObj(cl)
					if o == nil || o.Pkg() == nil {
						continue
					}
					three := (o.Name() == "Cmp" && o.Pkg().Path() == "math/big") || (o.Name() == "Compare" && (o.Pkg().Path() == "bytes" || o.Pkg().Path() == "strings"))
					if !three {
						continue
					}
					holds := 0
					for _, v := range []int64{-1, 0, 1} {
						t := false
						switch op {
						case token.GTR:
							t = v > kv
						case token.GEQ:
							t = v >= kv
						case token.LSS:
							t = v < kv
						case token.LEQ:
							t = v <= kv
						case token.EQL:
							t = v == kv
						case token.NEQ:
							t = v != kv
						default:
							holds = -10
						}
						if t {
							holds++
						}
					}
					if holds < 0 {
						continue
					}
					n++
					c.Decide(holds >= 1 && holds <= 2, rule, fn, "a test of a three-way comparison distinguishes its answers", c.P.Rel(cmp.Pos()), sprintf("%s %s %d holds for %d of the answers −1, 0, +1", o.Name(), op, kv, holds))
				}
			}
		}
	}
	c.Floor("three-way comparison tests in "+sprintf("%v", pkgPrefixes), n, 20)
}

// C32: when the quorum is reached the approvals of the request are cleared and stay cleared: in
// CheckConsensusSigns nothing re-writes the sign record after deleteConsensusSigns — neither a later call
// nor a deferred one (a deferred write runs at the return, i.e. after the delete, and re-creates the full
// quorum for the next request with the same key).
func checkSignsStayCleared(c *core.Ctx, rule string) {
	fn := c.Fn("native/service/governance/node_manager", "CheckConsensusSigns")
	del := eng.Obj(c, "native/service/governance/node_manager", "deleteConsensusSigns")
	put := eng.Obj(c, "native/service/governance/node_manager", "putConsensusSigns")
	if fn == nil || del == nil || put == nil {
		return
	}
	isPut := eng.CallPred(put)
	dels := ir.CallsThrough(fn, eng.CallPred(del), 2)
	c.Floor("deleteConsensusSigns in CheckConsensusSigns", len(dels), 1)
	hosts, release := hostsWithHelpers(fn)
	defer release()
	deferred := ""
	for _, h := range hosts {
		for _, b := range h.Blocks {
			for _, in := range b.Instrs {
				d, ok := in.(*ssa.Defer)
				if !ok {
					continue
				}
				if isPut(d) {
					deferred = c.P.Rel(d.Pos())
				}
				if cf, isFn := d.Call.Value.(*ssa.MakeClosure); isFn {
					if len(ir.CallsThrough(cf.Fn.(*ssa.Function), isPut, 2)) > 0 {
						deferred = c.P.Rel(d.Pos())
					}
				}
			}
		}
	}
	c.Decide(deferred == "", rule, fn, "the sign record is not written by a deferred call (it would run after the clearing delete)", c.P.Rel(fn.Pos()), deferred)
	puts := ir.CallsThrough(fn, isPut, 2)
	for _, d := range dels {
		r := ir.NewReach(fn)
		r.Run(d)
		bad := ""
		for _, p := range puts {
			if p != d && r.Instr(p) {
				bad = "putConsensusSigns at " + c.P.Rel(p.Pos()) + " reachable after the delete"
			}
		}
		c.Decide(bad == "", rule, fn, "after deleteConsensusSigns the record is not written again", c.P.Rel(d.Pos()), bad)
	}
}

// C08: a proof request is admitted by comparing the published tree size with the requested one, without a
// lock against block saving: the nodes of a new leaf must be in the hash store BEFORE the size that admits
// proofs over them is published.  In appendHash no store-append / flush is reachable after the size update.
func checkNodesPersistedBeforeSizePublished(c *core.Ctx, rule string) {
	fn := c.Fn("merkle", "CompactMerkleTree.appendHash")
	if fn == nil {
		return
	}
	sizes := storesToField(fn, fn.Params[0], "treeSize")
	c.Floor("treeSize updates in appendHash", len(sizes), 1)
	isPersist := func(ci ssa.CallInstruction) bool {
		if !ci.Common().IsInvoke() {
			return false
		}
		m := ci.Common().Method
		if m == nil || (m.Name() != "Append" && m.Name() != "Flush") {
			return false
		}
		_, f, ok := fieldLoad(ci.Common().Value)
		return ok && f == "hashStore"
	}
	// directly, or through a helper the persisting was moved into
	persists := ir.CallsThrough(fn, isPersist, 2)
	c.Floor("hash-store writes in appendHash", len(persists), 1)
	for _, st := range sizes {
		r := ir.NewReach(fn)
		r.Run(st)
		bad := ""
		for _, p := range persists {
			if r.Instr(p) {
				bad = "the hash-store write at " + c.P.Rel(p.Pos()) + " runs after the size update"
			}
		}
		c.Decide(bad == "", rule, fn, "the new nodes are appended and flushed before treeSize admits proofs over them", c.P.Rel(st.Pos()), bad)
	}
}

// Decoders of lists: every element appended in a loop is its own object.  `var h Header` hoisted out of the
// loop and `append(list, &h)` hands out N pointers to one struct holding the last element's scalars and the
// concatenation of everybody's slices — the list no longer round-trips.  Decided: an address appended inside
// a cycle is allocated inside that cycle.
func checkAppendedElementsFresh(c *core.Ctx, rule string, floor int, pkgs ...string) {
	n := 0
	for _, fn := range funcsOfPkgs(c, pkgs...) {
		if fn.Parent() != nil {
			continue
		}
		for _, b := range fn.Blocks {
			for _, in := range b.Instrs {
				cl, ok := in.(*ssa.Call)
				if !ok {
					continue
				}
				bi, isB := cl.Common().Value.(*ssa.Builtin)
				if !isB || bi.Name() != "append" || len(cl.Common().Args) != 2 {
					continue
				}
				for _, e := range eng.VariadicElems(cl.Common().Args[1]) {
					var al ssa.Instruction
					if a, isAl := e.(*ssa.Alloc); isAl && a.Heap {
						al = a
					} else if hc, _ := ir.CallOf(e); hc != nil {
						// the element is what a module helper allocates and hands back: fresh per call
						via, release := valueVia(e)
						if a2, isA2 := ir.Strip(via).(*ssa.Alloc); isA2 && a2.Heap && via != e {
							al = hc
						}
						release()
					}
					if al == nil {
						continue
					}
					r := ir.NewReach(fn)
					r.Run(cl)
					if !r.Instr(cl) {
						continue // not in a loop
					}
					n++
					c.Decide(r.Instr(al), rule, fn, "an element appended in a loop is allocated in that loop (one object per element)", c.P.Rel(cl.Pos()), "the same object is appended in every iteration")
				}
			}
		}
	}
	c.Floor("addresses appended inside decoding loops of "+sprintf("%v", pkgs), n, floor)
}

// C17: records of different side chains never share a key: the per-chain span record of the bor light client
// is keyed by the id of THAT bor chain (ctx.ChainID) — not by the id of the heimdall chain several bor chains
// may be bound to.
func checkSpanKeyedByOwnChain(c *core.Ctx, rule string) {
	n := 0
	for _, name := range []string{"putSpan", "getSpan"} {
		fn := c.Fn("native/service/header_sync/polygon", name)
		if fn == nil {
			continue
		}
		sites, err := eng.KeySitesIn(c.P, fn, 2)
		if err != nil {
			c.Broken(rule, fn, "key sites", "", err.Error())
			continue
		}
		for _, site := range sites {
			isSpan := false
			for _, a := range site.Shape {
				if a.Lit == "polygonSpan" {
					isSpan = true
				}
			}
			if !isSpan {
				continue
			}
			n++
			ok := false
			for _, a := range site.Shape {
				if a.Val == nil {
					continue
				}
				if base, f, isF := fieldLoad(ir.Strip(a.Val)); isF && f == "ChainID" {
					if _, isParam := ir.Strip(base).(*ssa.Parameter); isParam {
						ok = true
					}
				}
			}
			c.Decide(ok, rule, fn, "the span record is keyed by ctx.ChainID (the bor chain's own id)", c.P.Rel(site.Call.Pos()), site.Shape.String())
		}
	}
	c.Floor("span record accesses (polygon)", n, 2)
}

// C28: which rule set a header is judged by is decided by its HEIGHT: at or past the London height isLondon
// answers true whatever else the header carries (a header past the fork that omits its base fee must be
// rejected as "missing baseFee", not judged by the pre-London rules).  Decided: every value isLondon returns
// is the constant true, a height comparison itself, or stands on the fail edge of a height comparison.
func checkLondonDecidedByHeight(c *core.Ctx, rule string) {
	fn := c.Fn(pkEthHS, "isLondon")
	if fn == nil {
		return
	}
	hp := fn.Params[0]
	isNumber := func(v ssa.Value) bool {
		cl := calleeNamed(v, "Uint64")
		if cl == nil {
			return false
		}
		b, f, ok := fieldLoad(cl.Common().Args[0])
		return ok && f == "Number" && ir.Strip(b) == ssa.Value(hp)
	}
	isHeightCmp := func(v ssa.Value) bool {
		b, ok := v.(*ssa.BinOp)
		if !ok {
			return false
		}
		return (b.Op == token.GEQ && isNumber(b.X)) || (b.Op == token.LEQ && isNumber(b.Y))
	}
	below := cmpGuard("Number < London height", func(b *ssa.BinOp) (bool, bool) {
		if !isNumber(b.X) {
			return false, false
		}
		switch b.Op {
		case token.GEQ:
			return true, false
		case token.LSS:
			return true, true
		}
		return false, false
	})
	n, bad := 0, ""
	var walkIn func(host *ssa.Function, v ssa.Value, sink ir.Sink, depth int)
	walkIn = func(host *ssa.Function, v ssa.Value, sink ir.Sink, depth int) {
		if ph, isPhi := v.(*ssa.Phi); isPhi && depth < 6 {
			for i, e := range ph.Edges {
				pred := ph.Block().Preds[i]
				walkIn(host, e, ir.Sink{Instr: ph, Via: &ir.Edge{From: pred, Idx: indexOfSucc(pred, ph.Block())}}, depth+1)
			}
			return
		}
		// the production rule may live in a same-package helper handed the header
		if cl, isCall := v.(*ssa.Call); isCall && depth < 4 {
			if h := cl.Common().StaticCallee(); h != nil && h.Pkg == fn.Pkg && len(h.Blocks) > 0 && len(cl.Common().Args) == 1 && ir.Strip(cl.Common().Args[0]) == ssa.Value(hp) {
				undo := ir.BindParams(h, cl.Common().Args)
				c.Attribute(h, fn)
				for _, hb := range h.Blocks {
					if ret, ok := hb.Instrs[len(hb.Instrs)-1].(*ssa.Return); ok && len(ret.Results) == 1 {
						walkIn(h, ret.Results[0], ir.Sink{Instr: ret}, depth+1)
					}
				}
				undo()
				return
			}
		}
		n++
		if k, isK := ir.ConstBool(v); isK && k {
			return
		}
		if isHeightCmp(v) {
			return
		}
		if u, isU := v.(*ssa.UnOp); isU && u.Op == token.NOT {
			if b, isB := u.X.(*ssa.BinOp); isB && ((b.Op == token.LSS && isNumber(b.X)) || (b.Op == token.GTR && isNumber(b.Y))) {
				return // !(Number < height)
			}
		}
		if !quietDominates(host, below, sink) {
			bad = "an answer other than true is given without the height having been found below the fork (" + c.P.Rel(sink.Instr.Pos()) + ")"
		}
	}
	for _, b := range fn.Blocks {
		if ret, ok := b.Instrs[len(b.Instrs)-1].(*ssa.Return); ok && len(ret.Results) == 1 {
			walkIn(fn, ret.Results[0], ir.Sink{Instr: ret}, 0)
		}
	}
	c.Decide(n >= 2 && bad == "", rule, fn, "at or past the London height isLondon answers true", c.P.Rel(fn.Pos()), bad)
}

// C25: votes are tallied per thing voted on: the vote-record id is the hash of (source chain, height, AND the
// payload that is released on approval).  An id without the payload makes every deposit of one ledger share
// one record: a deposit with a single vote is released by the votes cast for another.
func checkVoteIdCoversPayload(c *core.Ctx, rule string) {
	n := 0
	for _, spec := range []struct{ pkg, fn string }{
		{"native/service/cross_chain_manager/consensus_vote", "VoteHandler.MakeDepositProposal"},
		{"native/service/cross_chain_manager/ripple", "RippleHandler.MakeDepositProposal"},
	} {
		fn := c.Fn(spec.pkg, spec.fn)
		if fn == nil {
			continue
		}
		hosts, release := hostsWithHelpers(fn)
		for _, h := range hosts {
			for _, b := range h.Blocks {
				for _, in := range b.Instrs {
					al, ok := in.(*ssa.Alloc)
					if !ok || !al.Heap {
						continue
					}
					pt, isP := al.Type().Underlying().(*types.Pointer)
					if !isP {
						continue
					}
					nt, isN := pt.Elem().(*types.Named)
					if !isN || nt.Obj().Name() != "EntranceParam" {
						continue
					}
					// only the literal that is serialized here (the id), not the decoded request
					serialized := false
					for _, r := range *al.Referrers() {
						if ci, isCall := r.(ssa.CallInstruction); isCall {
							if o := ir.CalleeObj(ci); o != nil && o.Name() == "Serialization" {
								serialized = true
							}
						}
					}
					if !serialized {
						continue
					}
					n++
					var missing []string
					for _, f := range []string{"SourceChainID", "Height", "Extra"} {
						v := literalFieldValue(al, f)
						okF := false
						if v != nil {
							if _, fld, isF := fieldLoad(ir.Strip(v)); isF && fld == f {
								okF = true
							}
						}
						if !okF {
							missing = append(missing, f)
						}
					}
					c.Decide(len(missing) == 0, rule, fn, "the vote id hashes the request's source chain, height and payload", c.P.Rel(al.Pos()), sprintf("not taken from the request: %v", missing))
				}
			}
		}
		release()
	}
	c.Floor("vote-id constructions in the vote routers", n, 2)
}

// C16: block execution depends on its inputs only — not on what earlier executions in the same process left
// in package-level variables.  The package-level *big.Int "constants" of the native contracts (bigMinus99,
// big1, two256 …) are never the receiver of a mutating big.Int method: `x = math.BigMax(x, bigMinus99)`
// followed by `x.Mul(x, y)` overwrites the shared value whenever the clamp applies.
var bigMutators = map[string]bool{"Set": true, "SetInt64": true, "SetUint64": true, "SetBytes": true, "SetString": true, "SetBit": true, "SetBits": true,
	"Add": true, "Sub": true, "Mul": true, "Div": true, "Mod": true, "Quo": true, "Rem": true, "Exp": true, "Neg": true, "Abs": true, "Lsh": true, "Rsh": true,
	"And": true, "AndNot": true, "Or": true, "Xor": true, "Not": true, "Sqrt": true, "DivMod": true, "QuoRem": true, "ModInverse": true, "ModSqrt": true, "GCD": true, "Rand": true, "MulRange": true, "Binomial": true}

func mayBeSharedBig(v ssa.Value, depth int) string {
	if depth > 6 || v == nil {
		return ""
	}
	switch x := v.(type) {
	case *ssa.UnOp:
		if g, ok := x.X.(*ssa.Global); ok && x.Op == token.MUL {
			return g.Name()
		}
	case *ssa.Phi:
		for _, e := range x.Edges {
			if s := mayBeSharedBig(e, depth+1); s != "" {
				return s
			}
		}
	case *ssa.Call:
		o := ir.CalleeObj(x)
		if o == nil {
			return ""
		}
		// selectors that hand back one of their arguments
		if o.Name() == "BigMax" || o.Name() == "BigMin" {
			for _, a := range x.Common().Args {
				if s := mayBeSharedBig(a, depth+1); s != "" {
					return s
				}
			}
		}
		// big.Int methods answer their receiver
		if o.Pkg() != nil && o.Pkg().Path() == "math/big" && bigMutators[o.Name()] && len(x.Common().Args) > 0 {
			return mayBeSharedBig(x.Common().Args[0], depth+1)
		}
	}
	return ""
}

func checkSharedBigIntsNotMutated(c *core.Ctx, rule string, pkgs ...string) {
	n := 0
	for _, fn := range funcsOfPkgs(c, pkgs...) {
		if fn.Name() == "init" || strings.HasPrefix(fn.Name(), "init#") || fn.Synthetic != "" {
			continue
		}
		for _, b := range fn.Blocks {
			for _, in := range b.Instrs {
				cl, ok := in.(*ssa.Call)
				if !ok || len(cl.Common().Args) == 0 {
					continue
				}
				o := ir.CalleeObj(cl)
				if o == nil || o.Pkg() == nil || o.Pkg().Path() != "math/big" || !bigMutators[o.Name()] {
					continue
				}
				sig, isSig := o.Type().(*types.Signature)
				if !isSig || sig.Recv() == nil || !strings.HasSuffix(sig.Recv().Type().String(), "big.Int") {
					continue
				}
				n++
				if g := mayBeSharedBig(cl.Common().Args[0], 0); g != "" {
					c.Violate(rule, fn, "a package-level big.Int is never the receiver of a mutating method", c.P.Rel(cl.Pos()), "receiver of "+o.Name()+" may be the shared value "+g+": a later execution in this process computes with what this one left there")
				}
			}
		}
	}
	c.Hold(rule, "native/service/header_sync", "mutating big.Int calls inspected", "", sprintf("%d", n))
	c.Floor("mutating big.Int calls in "+sprintf("%v", pkgs), n, 50)
}

// C04: a record the encoder may end early must be accepted by its decoder.  When the LAST write of a
// Serialization stands under a condition (a field added by a fork: written only past the fork height), the
// records written before the fork end without it — the decoder's last read must not turn end-of-input into
// an error, or the contract can no longer read what it stored itself.
func checkOptionalTailAccepted(c *core.Ctx, rule string, pkgs ...string) {
	isSinkWrite := func(ci ssa.CallInstruction) bool {
		o := ir.CalleeObj(ci)
		if o == nil || !strings.HasPrefix(o.Name(), "Write") {
			return false
		}
		sig, ok := o.Type().(*types.Signature)
		return ok && sig.Recv() != nil && strings.HasSuffix(sig.Recv().Type().String(), "ZeroCopySink")
	}
	isSourceRead := func(ci ssa.CallInstruction) bool {
		o := ir.CalleeObj(ci)
		if o == nil || !strings.HasPrefix(o.Name(), "Next") {
			return false
		}
		sig, ok := o.Type().(*types.Signature)
		return ok && sig.Recv() != nil && strings.HasSuffix(sig.Recv().Type().String(), "ZeroCopySource")
	}
	last := func(fn *ssa.Function, calls []ssa.CallInstruction) ssa.CallInstruction {
		var out ssa.CallInstruction
		for _, x := range calls {
			r := ir.NewReach(fn)
			r.Run(x)
			isLast := !r.Instr(x) // not in a cycle
			for _, y := range calls {
				if y != x && r.Instr(y) {
					isLast = false
				}
			}
			if isLast {
				if out != nil {
					return nil // two candidates (branches): not decided here
				}
				out = x
			}
		}
		return out
	}
	n := 0
	byRecv := map[string][2]*ssa.Function{}
	for _, fn := range funcsOfPkgs(c, pkgs...) {
		if fn.Signature.Recv() == nil || (fn.Name() != "Serialization" && fn.Name() != "Deserialization") {
			continue
		}
		k := fn.Signature.Recv().Type().String()
		p := byRecv[k]
		if fn.Name() == "Serialization" {
			p[0] = fn
		} else {
			p[1] = fn
		}
		byRecv[k] = p
	}
	var keys []string
	for k := range byRecv {
		keys = append(keys, k)
	}
	sortStrings(keys)
	for _, k := range keys {
		ser, des := byRecv[k][0], byRecv[k][1]
		if ser == nil || des == nil {
			continue
		}
		w := last(ser, ir.Calls(ser, isSinkWrite))
		if w == nil {
			continue
		}
		// conditional: a completion of the encoder is reachable without the last write
		r := ir.NewReach(ser)
		r.Barrier[w] = true
		r.Run(nil)
		conditional := false
		for _, s := range ir.SuccessSinks(ser) {
			if r.SinkReachable(s) {
				conditional = true
			}
		}
		if !conditional {
			continue
		}
		n++
		rd := last(des, ir.Calls(des, isSourceRead))
		rv, isV := rd.(*ssa.Call)
		if rd == nil || !isV {
			c.Broken(rule, des, "last read of the decoder", c.P.Rel(des.Pos()), "not identified")
			continue
		}
		// the eof flag of the last read must not lead to failure only
		fatal := ""
		if refs := rv.Referrers(); refs != nil {
			for _, ref := range *refs {
				ex, isEx := ref.(*ssa.Extract)
				if !isEx || ex.Index != rv.Type().(*types.Tuple).Len()-1 || ex.Referrers() == nil {
					continue
				}
				for _, u := range *ex.Referrers() {
					iff, isIf := u.(*ssa.If)
					if !isIf {
						continue
					}
					rr := ir.NewReach(des)
					rr.RunFromBlock(iff.Block().Succs[0])
					okSome := false
					for _, s := range ir.SuccessSinks(des) {
						if rr.SinkReachable(s) {
							okSome = true
						}
					}
					if !okSome {
						fatal = "end of input at the optional last field is an error (" + c.P.Rel(iff.Pos()) + ")"
					}
				}
			}
		}
		c.Decide(fatal == "", rule, des, "the decoder accepts a record that ends before the conditionally written last field", c.P.Rel(rd.Pos()), fatal)
	}
	c.Floor("codecs whose last field is written conditionally in "+sprintf("%v", pkgs), n, 1)
}

// C30 (existence clause, ics23 operator of the cosmos router): what CommitmentOp.Run verifies is decided by
// the CALLER's arguments — one value handed in means "this key exists with this value" — never by the kind of
// proof the relayer embedded.  Decided: a success return is reached with len(args) == 0 (absence asked) or
// after VerifyMembership(…, op.Key, args[0]) answered true.
func checkIcs23RunVerifiesWhatWasAsked(c *core.Ctx, rule string) {
	fn := c.Fn("native/service/cross_chain_manager/cosmos", "CommitmentOp.Run")
	if fn == nil {
		return
	}
	argsP := paramByName(fn, "args")
	if argsP == nil {
		c.Broken(rule, fn, "parameter args", c.P.Rel(fn.Pos()), "not found")
		return
	}
	isLenArgs := func(v ssa.Value) bool {
		cl, ok := ir.Strip(v).(*ssa.Call)
		if !ok || !isBuiltinLen(cl) {
			return false
		}
		return ir.Strip(cl.Common().Args[0]) == ssa.Value(argsP)
	}
	noArgs := relGuard("len(args) == 0", isLenArgs, isConstInt(0), token.EQL)
	member := eng.NamedGuard{Name: "VerifyMembership(spec, root, proof, op.Key, args[0]) == true", G: ir.BoolIs(func(cl *ssa.Call) bool {
		o := ir.CalleeObj(cl)
		if o == nil || o.Name() != "VerifyMembership" {
			return false
		}
		a := cl.Common().Args
		ld, ok := ir.Strip(a[len(a)-1]).(*ssa.UnOp)
		if !ok {
			return false
		}
		ia, ok := ld.X.(*ssa.IndexAddr)
		if !ok {
			return false
		}
		k, okk := ir.ConstInt(ia.Index)
		return okk && k == 0 && ir.Strip(ia.X) == ssa.Value(argsP)
	}, true)}
	eng.Dominates(c, rule, fn, eng.NamedGuard{Name: "absence asked (len(args) == 0) ∨ " + member.Name, G: ir.Or(noArgs.G, member.G)}, ir.SuccessSinks(fn), "root answered", nil)
}
