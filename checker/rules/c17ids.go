package rules

import (
	"go/token"
	"strings"

	"golang.org/x/tools/go/ssa"

	"polyverif/core"
	"polyverif/ir"
)

// checkIDsFromOwnCounter: a record's id parameter comes from the counter that is advanced for it.  Where a
// function reads a counter with get<X>(…), and stores that value + 1 back with put<Y>/set<Y>(…), X and Y are
// the same counter.  (putRelayerRemove taking its id from the APPLY counter while advancing the REMOVE
// counter hands the same id — the same storage key — to two pending requests.)
func checkIDsFromOwnCounter(c *core.Ctx, rule string, pkgs ...string) {
	n := 0
	for _, fn := range funcsOfPkgs(c, pkgs...) {
		for _, ci := range ir.Calls(fn, func(ci ssa.CallInstruction) bool {
			o := ir.CalleeObj(ci)
			if o == nil {
				return false
			}
			l := strings.ToLower(o.Name())
			return strings.HasPrefix(l, "put") || strings.HasPrefix(l, "set")
		}) {
			setter := ir.CalleeObj(ci).Name()
			for _, a := range ci.Common().Args {
				b, ok := ir.Strip(a).(*ssa.BinOp)
				if !ok || b.Op != token.ADD {
					continue
				}
				k, isK := ir.ConstInt(b.Y)
				if !isK || k != 1 {
					continue
				}
				g, _ := ir.CallOf(b.X)
				if g == nil || ir.CalleeObj(g) == nil {
					continue
				}
				getter := ir.CalleeObj(g).Name()
				if !strings.HasPrefix(strings.ToLower(getter), "get") {
					continue
				}
				n++
				c.Touch(fn)
				c.Decide(strings.EqualFold(getter[3:], setter[3:]), rule, fn, "the id comes from the counter that is advanced for it ("+getter+" / "+setter+")", c.P.Rel(ci.Pos()),
					"id read with "+getter+" but "+setter+" is advanced: two records of this kind can receive the same id, i.e. the same storage key")
			}
		}
	}
	c.Floor("id counters read and advanced ("+rule+")", n, 2)
}
