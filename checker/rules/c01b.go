package rules

import (
	"go/types"

	"golang.org/x/tools/go/ssa"

	"polyverif/core"
	"polyverif/ir"
)

// C01 (continued) — streaming decoders and short reads.  io.Reader.Read may
// return fewer bytes than asked with a nil error; a fixed-width decode that
// calls it directly accepts truncated input as (zero-padded) data and leaves
// the stream misaligned.  In the codec packages every read from an io.Reader
// goes through io.ReadFull / io.ReadAtLeast / binary.Read (which fail on a
// short read); a direct Read call is allowed only inside a function that is
// itself a Reader (method named Read) or that consumes the returned count.
func checkFullReads(c *core.Ctx) {
	const rule = "C01.full-read"
	full := 0
	for _, p := range []string{"common", pkSerialization} {
		pk := c.P.Pkgs[ir.PkgPath(p)]
		if pk == nil || pk.SSA == nil {
			c.Broken("anchor", p, "package", "", "not loaded")
			continue
		}
		for _, fn := range allFuncs(pk.SSA) {
			if fn.Name() == "Read" {
				continue
			}
			for _, b := range fn.Blocks {
				for _, in := range b.Instrs {
					ci, ok := in.(ssa.CallInstruction)
					if !ok {
						continue
					}
					if ir.IsPkgFunc(ci, "io", "ReadFull", "ReadAtLeast") || ir.IsPkgFunc(ci, "encoding/binary", "Read") {
						full++
						continue
					}
					if !isReaderRead(ci) {
						continue
					}
					// the count must be consumed (compared, added, sliced by …)
					used := false
					if v := ci.Value(); v != nil && v.Referrers() != nil {
						for _, r := range *v.Referrers() {
							if ex, isEx := r.(*ssa.Extract); isEx && ex.Index == 0 && ex.Referrers() != nil {
								for _, rr := range *ex.Referrers() {
									if _, dbg := rr.(*ssa.DebugRef); !dbg {
										used = true
									}
								}
							}
						}
					}
					c.Decide(used, rule, fn, "a direct Reader.Read consumes the byte count it returns", c.P.Rel(ci.Pos()),
						"Read may deliver fewer bytes than requested with a nil error; the count is discarded, so truncated input decodes as data (use io.ReadFull)")
				}
			}
		}
	}
	c.Floor("full-read calls (io.ReadFull / binary.Read) in the stream decoders", full, 8)
	c.Hold(rule, "common, common/serialization", "every stream read goes through io.ReadFull / io.ReadAtLeast / binary.Read", "", sprintf("%d full-read call(s)", full))
}

// isReaderRead: ci calls Read([]byte) (int, error) — through the io.Reader
// interface or on a concrete reader.
func isReaderRead(ci ssa.CallInstruction) bool {
	cc := ci.Common()
	var sig *types.Signature
	name := ""
	if cc.IsInvoke() {
		name, sig = cc.Method.Name(), cc.Method.Type().(*types.Signature)
	} else if o := ir.CalleeObj(ci); o != nil {
		name, _ = o.Name(), 0
		sig, _ = o.Type().(*types.Signature)
		if sig == nil || sig.Recv() == nil {
			return false
		}
	}
	if name != "Read" || sig == nil || sig.Params().Len() != 1 || sig.Results().Len() != 2 {
		return false
	}
	sl, ok := sig.Params().At(0).Type().Underlying().(*types.Slice)
	if !ok {
		return false
	}
	b, ok := sl.Elem().Underlying().(*types.Basic)
	return ok && b.Kind() == types.Byte && ir.IsErrorType(sig.Results().At(1).Type())
}
