package rules

import (
	"go/token"
	"strings"

	"golang.org/x/tools/go/ssa"

	"polyverif/core"
	"polyverif/eng"
	"polyverif/ir"
)

// rootedIn: v is reached from parameter `name` through field selections and loads.
func rootedIn(v ssa.Value, name string, depth int) bool {
	for i := 0; i < depth && v != nil; i++ {
		switch x := v.(type) {
		case *ssa.Parameter:
			if r := ir.Resolve(x); r != ssa.Value(x) {
				v = r // a helper's parameter stands for the caller's argument
				continue
			}
			return x.Name() == name
		case *ssa.UnOp:
			v = x.X
		case *ssa.FieldAddr:
			v = x.X
		case *ssa.Field:
			v = x.X
		case *ssa.IndexAddr:
			v = x.X
		case *ssa.Index:
			v = x.X
		case *ssa.Convert:
			v = x.X
		case *ssa.ChangeType:
			v = x.X
		case *ssa.Alloc:
			// a local copy taken once (w := msg.Witnesses[0]) stands for what was copied
			st := ir.SingleStore(x)
			if st == nil {
				return false
			}
			v = st
		default:
			return false
		}
	}
	return false
}

// witnessFromParam: the witness literal's scripts are decoded from fields of the message parameter.
func witnessFromParam(v ssa.Value, msgName string) bool {
	// built by a module helper from its arguments: every non-nil witness it returns qualifies
	if cl, idx := ir.CallOf(v); cl != nil {
		h := cl.Common().StaticCallee()
		if h == nil || len(h.Blocks) == 0 || h.Pkg == nil || !strings.HasPrefix(h.Pkg.Pkg.Path(), ir.Mod) {
			return false
		}
		if idx < 0 {
			idx = 0
		}
		defer ir.BindParams(h, cl.Common().Args)()
		n := 0
		for _, b := range h.Blocks {
			ret, isRet := b.Instrs[len(b.Instrs)-1].(*ssa.Return)
			if !isRet || idx >= len(ret.Results) {
				continue
			}
			if k, isK := ret.Results[idx].(*ssa.Const); isK && k.IsNil() {
				continue
			}
			if !witnessFromParam(ret.Results[idx], msgName) {
				return false
			}
			n++
		}
		return n > 0
	}
	al, ok := ir.Strip(v).(*ssa.Alloc)
	if !ok {
		return false
	}
	n := 0
	for _, ref := range *al.Referrers() {
		fa, ok := ref.(*ssa.FieldAddr)
		if !ok {
			continue
		}
		for _, r2 := range *fa.Referrers() {
			st, ok := r2.(*ssa.Store)
			if !ok || st.Addr != ssa.Value(fa) {
				continue
			}
			src := st.Val
			if cl, idx := ir.CallOf(src); cl != nil && idx <= 0 {
				if o := ir.CalleeObj(cl); o != nil && (o.Name() == "DecodeString" || o.Name() == "Base64Decode") {
					src = cl.Common().Args[0]
				}
			}
			if !rootedIn(src, msgName, 10) {
				return false
			}
			n++
		}
	}
	return n == 2
}

// checkNeoFamily: NEO (legacy) compares the message's script hash with the tracked
// NextConsensus; NEO N3 and N3-legacy compare it with the multisig contract of the
// registered state validators.  Both then verify the witness.
func checkNeoFamily(c *core.Ctx, prop string) {
	witnessGuard := eng.NamedGuard{Name: "VerifyMultiSignatureWitness(msg.GetMessage(), witness from msg) == true", G: ir.BoolIs(func(cl *ssa.Call) bool {
		o := ir.CalleeObj(cl)
		if o == nil || o.Name() != "VerifyMultiSignatureWitness" {
			return false
		}
		m, _ := ir.CallOf(cl.Common().Args[0])
		if m == nil || ir.CalleeObj(m) == nil || ir.CalleeObj(m).Name() != "GetMessage" || !rootedIn(m.Common().Args[0], "crossChainMsg", 6) {
			return false
		}
		return witnessFromParam(cl.Common().Args[1], "crossChainMsg")
	}, true)}
	scriptOfMsg := func(v ssa.Value) bool {
		cl, _ := ir.CallOf(v)
		if cl == nil || ir.CalleeObj(cl) == nil || ir.CalleeObj(cl).Name() != "GetScriptHash" {
			return false
		}
		return rootedIn(cl.Common().Args[0], "crossChainMsg", 6)
	}
	// NEO legacy
	{
		pkg := "native/service/header_sync/neo"
		fn := c.Fn(pkg, "VerifyCrossChainMsgSig")
		gcv := eng.Obj(c, pkg, "getConsensusValByChainId")
		if fn != nil && gcv != nil {
			succ := ir.SuccessSinks(fn)
			eng.Dominates(c, prop+".neo-tracked-consensus", fn, eng.ErrNilOf("getConsensusValByChainId", gcv), succ, "nil return", nil)
			eng.Dominates(c, prop+".neo-tracked-consensus", fn, cmpGuard("tracked NextConsensus == message script hash", func(b *ssa.BinOp) (bool, bool) {
				if b.Op != token.EQL && b.Op != token.NEQ {
					return false, false
				}
				tracked := func(v ssa.Value) bool {
					base, f, ok := fieldLoad(v)
					return ok && f == "NextConsensus" && isCallTo(base, gcv)
				}
				if (tracked(b.X) && scriptOfMsg(b.Y)) || (tracked(b.Y) && scriptOfMsg(b.X)) {
					return true, b.Op == token.EQL
				}
				return false, false
			}), succ, "nil return", nil)
			eng.Dominates(c, prop+".neo-witness", fn, witnessGuard, succ, "nil return", nil)
		}
	}
	// NEO N3 / legacy N3
	gsv := eng.Obj(c, pkNeo3SM, "GetCurrentStateValidator")
	for _, pkg := range []string{"native/service/header_sync/neo3", "native/service/header_sync/neo3legacy"} {
		fn := c.Fn(pkg, "VerifyCrossChainMsgSig")
		if fn == nil || gsv == nil {
			continue
		}
		succ := ir.SuccessSinks(fn)
		eng.Dominates(c, prop+".neo-tracked-consensus", fn, eng.ErrNilOf("GetCurrentStateValidator", gsv), succ, "nil return", nil)
		// expected = CreateMultiSigContract(m, pubKeys).GetScriptHash(); guard expected.Equals(got)
		var cms *ssa.Call
		// in the function itself or in a same-package helper that computes the expected script hash
		hosts, releaseHosts := hostsWithHelpers(fn)
		for _, host := range hosts {
			for _, ci := range ir.Calls(host, nil) {
				if o := ir.CalleeObj(ci); o != nil && o.Name() == "CreateMultiSigContract" {
					cms, _ = ci.(*ssa.Call)
					if host != fn {
						c.Attribute(host, fn)
					}
				}
			}
		}
		defer releaseHosts()
		if cms == nil {
			c.Broken(prop+".neo-tracked-consensus", fn, "CreateMultiSigContract call", c.P.Rel(fn.Pos()), "not found")
			continue
		}
		// m ≡ N − ⌊(N−1)/3⌋ over N = len(pubKeys)
		keys := cms.Common().Args[1]
		// the key list may be what a same-package helper builds from the registered strings
		keysV, releaseKeys := valueVia(keys)
		defer releaseKeys()
		lenKeys := eng.IsLenOf(func(v ssa.Value) bool { return v == keys || ir.Strip(v) == ir.Strip(keys) })
		e, err := eng.ExtractExpr(cms.Common().Args[0], func(v ssa.Value) bool {
			if lenKeys(v) {
				return true
			}
			// keys = make([]T, L, …): L is its length
			ms, isMS := ir.Strip(keysV).(*ssa.MakeSlice)
			if !isMS {
				return false
			}
			if ir.Strip(v) == ir.Strip(ms.Len) {
				return true
			}
			a, okA := ir.Strip(v).(*ssa.Call)
			b, okB := ir.Strip(ms.Len).(*ssa.Call)
			if okA && okB && isBuiltinLen(a) && isBuiltinLen(b) {
				return ir.Strip(a.Common().Args[0]) == ir.Strip(b.Common().Args[0])
			}
			return false
		})
		if err != nil {
			c.Broken(prop+".neo-tracked-consensus", fn, "m of the state-validator multisig", c.P.Rel(cms.Pos()), err.Error())
		} else {
			ok, why := eng.EqualForAll(e, eng.FormulaNminusF(), 1)
			c.Decide(ok, prop+".neo-tracked-consensus", fn, "state-validator multisig threshold m ≡ N−⌊(N−1)/3⌋", c.P.Rel(cms.Pos()), why)
		}
		// pubKeys derive from the registered state validators
		okKeys := false
		if ms, isMS := ir.Strip(keysV).(*ssa.MakeSlice); isMS {
			// length = len(DeserializeStringArray(GetCurrentStateValidator()))
			if ln, isCall := ir.Strip(ms.Len).(*ssa.Call); isCall {
				if dsa, _ := ir.CallOf(ln.Common().Args[0]); dsa != nil && ir.CalleeObj(dsa) != nil && ir.CalleeObj(dsa).Name() == "DeserializeStringArray" {
					okKeys = isCallTo(dsa.Common().Args[0], gsv)
				}
			}
		}
		c.Decide(okKeys, prop+".neo-tracked-consensus", fn, "multisig keys = the registered state validators (neo3_state_manager)", c.P.Rel(cms.Pos()), "")
		eq := eng.NamedGuard{Name: "scriptHash(state-validator multisig) Equals message script hash", G: ir.BoolIs(func(cl *ssa.Call) bool {
			o := ir.CalleeObj(cl)
			if o == nil || o.Name() != "Equals" {
				return false
			}
			a := cl.Common().Args
			exp := func(v ssa.Value) bool {
				try := func(y ssa.Value) bool {
					g, _ := ir.CallOf(y)
					if g == nil || ir.CalleeObj(g) == nil || ir.CalleeObj(g).Name() != "GetScriptHash" {
						return false
					}
					src, idx := ir.CallOf(g.Common().Args[0])
					return src == cms && idx <= 0
				}
				if try(v) {
					return true
				}
				via, release := valueVia(v) // the hash a helper returns
				defer release()
				return via != v && try(via)
			}
			return (exp(a[0]) && scriptOfMsg(a[1])) || (exp(a[1]) && scriptOfMsg(a[0]))
		}, true)}
		eng.Dominates(c, prop+".neo-tracked-consensus", fn, eq, succ, "nil return", nil)
		eng.Dominates(c, prop+".neo-witness", fn, witnessGuard, succ, "nil return", nil)
	}
}

func isBuiltinLen(cl *ssa.Call) bool {
	bi, ok := cl.Common().Value.(*ssa.Builtin)
	return ok && bi.Name() == "len"
}
