package rules

import (
	"golang.org/x/tools/go/ssa"

	"polyverif/core"
	"polyverif/ir"
)

// C01 (continued) — bytes reserved in the zero-copy sink are written on every
// path.  NextBytes re-slices existing capacity without clearing it, so after a
// Reset, a BackUp or over a recycled buffer the reserved bytes hold stale data:
// a writer that assigns them only on some branch (`if b { buf[0] = 1 }`) emits
// whatever was there before, and no longer agrees with the streaming encoder.
// Rule: in every ZeroCopySink method that reserves bytes with NextBytes, every
// return reachable from the reservation passes an instruction that writes into
// the reserved slice (an element store, copy(dst, …), or a PutUintNN(dst, …)).
func checkReservedBytesWritten(c *core.Ctx) {
	const rule = "C01.reserved-bytes-written"
	pk := c.P.Pkgs[ir.PkgPath("common")]
	if pk == nil || pk.SSA == nil {
		return
	}
	n := 0
	for _, fn := range allFuncs(pk.SSA) {
		if recvTypeName(fn) != "ZeroCopySink" || fn.Name() == "NextBytes" {
			continue
		}
		for _, ci := range ir.Calls(fn, func(ci ssa.CallInstruction) bool {
			o := ir.CalleeObj(ci)
			return o != nil && o.Name() == "NextBytes" && recvNamedCI(ci, "ZeroCopySink")
		}) {
			buf := ci.Value()
			if buf == nil {
				continue
			}
			n++
			// derived(v): v is buf or a re-slice of it
			var derived func(v ssa.Value, d int) bool
			derived = func(v ssa.Value, d int) bool {
				if v == ssa.Value(buf) {
					return true
				}
				if d > 4 {
					return false
				}
				if sl, ok := v.(*ssa.Slice); ok {
					return derived(sl.X, d+1)
				}
				return false
			}
			r := ir.NewReach(fn)
			fills := 0
			for _, b := range fn.Blocks {
				for _, in := range b.Instrs {
					isFill := false
					switch x := in.(type) {
					case *ssa.Store:
						if ia, ok := x.Addr.(*ssa.IndexAddr); ok && derived(ia.X, 0) {
							isFill = true
						}
					case ssa.CallInstruction:
						a := x.Common().Args
						if bi, ok := x.Common().Value.(*ssa.Builtin); ok && bi.Name() == "copy" && len(a) > 0 && derived(a[0], 0) {
							isFill = true
						}
						if o := ir.CalleeObj(x); o != nil && len(o.Name()) > 7 && o.Name()[:7] == "PutUint" {
							for _, v := range a {
								if derived(v, 0) {
									isFill = true
								}
							}
						}
					}
					if isFill {
						r.Barrier[in] = true
						fills++
					}
				}
			}
			r.Run(ci)
			bad := ""
			for _, b := range fn.Blocks {
				if len(b.Instrs) == 0 {
					continue
				}
				if ret, ok := b.Instrs[len(b.Instrs)-1].(*ssa.Return); ok && r.Instr(ret) {
					bad = "a return is reachable from the reservation without any write into the reserved bytes; path " + r.Path(c.P, ret)
				}
			}
			c.Decide(bad == "", rule, fn, "bytes reserved by NextBytes are written on every path", c.P.Rel(ci.Pos()), bad)
			_ = fills
		}
	}
	c.Floor("NextBytes reservations in ZeroCopySink writers", n, 6)
}
