package rules

import (
	"go/token"

	"golang.org/x/tools/go/ssa"

	"polyverif/core"
	"polyverif/ir"
)

// forEachEffectiveSite calls visit for every call site of target, looking
// through private forwarding helpers: when the direct caller is an unexported
// module function (no closure), visit is called once per call site OF THAT
// HELPER instead — with the helper's parameters bound to that site's arguments,
// so ir.Strip on an argument of the target call yields what the outer caller
// passed (a constant tag, a field of its request object).  args are always the
// arguments of the call of target itself.  Depth 2.
func forEachEffectiveSite(c *core.Ctx, target *ssa.Function, visit func(caller *ssa.Function, site ssa.CallInstruction, args []ssa.Value)) {
	cg := c.P.CG()
	var walk func(fn *ssa.Function, inner ssa.CallInstruction, depth int)
	walk = func(fn *ssa.Function, inner ssa.CallInstruction, depth int) {
		for _, e := range cg.In[fn] {
			if e.Site == nil || e.Site.Common().StaticCallee() != fn {
				continue
			}
			caller := e.Caller
			in := inner
			if in == nil {
				in = e.Site
			}
			isHelper := caller.Parent() == nil && !token.IsExported(caller.Name()) && caller.Synthetic == "" && depth < 2 && len(cg.In[caller]) > 0
			if isHelper {
				// every use of the helper must itself be a static call (not a function value)
				for _, e2 := range cg.In[caller] {
					if e2.Site == nil || e2.Site.Common().StaticCallee() != caller {
						isHelper = false
					}
				}
			}
			if !isHelper {
				visit(caller, e.Site, in.Common().Args)
				continue
			}
			// bind per outer site
			for _, e2 := range cg.In[caller] {
				unbind := ir.BindParams(caller, e2.Site.Common().Args)
				if depth+1 < 2 {
					// the outer caller may be a helper again: keep it simple, visit it directly
				}
				visit(e2.Caller, e2.Site, in.Common().Args)
				unbind()
			}
		}
	}
	walk(target, nil, 0)
}
