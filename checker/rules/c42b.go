package rules

import (
	"go/token"
	"strings"

	"golang.org/x/tools/go/ssa"

	"polyverif/core"
	"polyverif/ir"
)

// c42ThresholdReplaced: for a frozen threshold function that no longer contains
// a ÷3/÷7 tree, look for its quorum comparison (a count compared with a bound by
// >= / > / < / <=) whose bound is built from parameters or fields other than a
// division formula: that is a replaced threshold, not an unknown shape.
func c42ThresholdReplaced(c *core.Ctx, name string) string {
	var fn *ssa.Function
	for _, pk := range c.P.Mod {
		if pk.SSA == nil {
			continue
		}
		for _, f := range allFuncs(pk.SSA) {
			if ir.FuncName(f) == name {
				fn = f
			}
		}
	}
	if fn == nil {
		return ""
	}
	for _, cd := range ir.Conds(fn) {
		b, ok := cd.V.(*ssa.BinOp)
		if !ok {
			continue
		}
		switch b.Op {
		case token.GEQ, token.GTR, token.LSS, token.LEQ:
		default:
			continue
		}
		// one side counts something (len(...) possibly +1), the other side is the bound
		isCount := func(v ssa.Value) bool {
			v = ir.Strip(v)
			if add, isAdd := v.(*ssa.BinOp); isAdd && add.Op == token.ADD {
				v = ir.Strip(add.X)
			}
			cl, isC := v.(*ssa.Call)
			if !isC {
				return false
			}
			bi, isB := cl.Common().Value.(*ssa.Builtin)
			return isB && bi.Name() == "len"
		}
		var bound ssa.Value
		switch {
		case isCount(b.X):
			bound = b.Y
		case isCount(b.Y):
			bound = b.X
		default:
			continue
		}
		if _, isK := bound.(*ssa.Const); isK {
			continue
		}
		// the bound mentions more than the validator count N
		var leaves []string
		var walk func(v ssa.Value, d int)
		walk = func(v ssa.Value, d int) {
			if d > 6 {
				return
			}
			switch x := ir.Strip(v).(type) {
			case *ssa.BinOp:
				walk(x.X, d+1)
				walk(x.Y, d+1)
			case *ssa.Const:
			case *ssa.Parameter:
				leaves = append(leaves, x.Name())
			case *ssa.Phi:
				leaves = append(leaves, "φ"+x.Comment)
			default:
				leaves = append(leaves, x.Name())
			}
		}
		walk(bound, 0)
		loopTest := len(leaves) > 0
		for _, l := range leaves {
			if !strings.HasPrefix(l, "φrangeindex") && l != "φi" && l != "φj" {
				loopTest = false
			}
		}
		if loopTest {
			continue // an index-vs-length loop test, not a quorum comparison
		}
		return "the quorum bound at " + c.P.Rel(b.Pos()) + " is built from {" + strings.Join(leaves, ", ") + "} without the ⌊(N−1)/3⌋ / ⌊2N/3⌋ formula"
	}
	return ""
}
