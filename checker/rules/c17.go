package rules

import (
	"go/token"
	"sort"
	"strings"

	"golang.org/x/tools/go/ssa"

	"polyverif/core"
	"polyverif/eng"
	"polyverif/ir"
)

// C17 — contract storage is confined and its keys are unambiguous.

func init() {
	core.Register(&core.Check{
		ID: "C17", Level: "other", Title: "Contract storage is confined and its keys are unambiguous",
		Explain: "(1) Confinement: the only callers of CacheDB.put/get/delete pass the constant ST_STORAGE, NewIterator prefixes ST_STORAGE, and (with C15) nothing reachable from a native handler writes the overlay or the state store directly. (2) Key algebra over every storage access reachable (static calls, depth 6, parameter slots substituted at call sites) from the registered handlers and the router methods: each key is abstracted to contract‖atoms with atoms Lit(bytes) | Fix(n) | Var; injectivity: no shape has two unbounded atoms (two parameter tuples could give one key); disjointness: two shapes of the same contract that are not the same record kind (do not unify) must denote disjoint byte languages (decided exactly by a product construction over literal bytes / any-byte / any-string), except shapes of different router packages that both carry the 8-byte chain id right after the leading literal (assumption: one router per chain id); pairing: every Get/Delete shape unifies with some Put shape of the same contract (reading or deleting a never-written key is a contradiction). NOT decided: collisions that depend on value coincidences inside Var atoms of one record kind (same kind by definition).",
		Run:     runC17,
	})
}

type shapeUse struct {
	shape eng.KeyShape
	ops   map[string]bool
	pkgs  map[string]bool
	pos   string
	fn    string
}

func routerPkg(path string) string {
	for _, pre := range []string{ir.Mod + "/native/service/header_sync/", ir.Mod + "/native/service/cross_chain_manager/"} {
		if strings.HasPrefix(path, pre) {
			rest := strings.TrimPrefix(path, pre)
			if i := strings.Index(rest, "/"); i >= 0 {
				rest = rest[:i]
			}
			if rest == "common" {
				return ""
			}
			return rest
		}
	}
	return ""
}

func runC17(c *core.Ctx) {
	checkSpanKeyedByOwnChain(c, "C17.per-chain-span")
	checkIDsFromOwnCounter(c, "C17.id-from-own-counter", "native/service/governance/...")
	checkUpdateFeeRound(c)
	checkVoteTagsDistinct(c, "C17.ledger-tag")
	nRd := checkReaderParamsInKey(c, "C17.params-in-key", inNativeService)
	c.Floor("identifying parameters of pure reader accessors in the native contracts", nRd, 40)
	// (1) confinement
	stStorage, err := c.P.Const("core/store/common", "ST_STORAGE")
	if err != nil {
		c.Broken("anchor", "", "ST_STORAGE", "", err.Error())
		return
	}
	cg := c.P.CG()
	for _, n := range []string{"put", "get", "delete"} {
		f := c.FnAny(pkStorage, "CacheDB."+n, "CacheDB."+strings.ToUpper(n[:1])+n[1:])
		if f == nil {
			continue
		}
		if token.IsExported(f.Name()) {
			// the private worker was inlined into the exported method: the prefix is the constant there
			okK := false
			for _, ci := range ir.Calls(f, func(ci ssa.CallInstruction) bool {
				h := ci.Common().StaticCallee()
				return h != nil && h.Name() == "makePrefixedKey"
			}) {
				if a := ci.Common().Args; len(a) == 3 {
					if k, isK := ir.Strip(a[1]).(*ssa.Const); isK && k.Value != nil && k.Value.ExactString() == stStorage.ExactString() {
						okK = true
					}
					if cv, isCv := a[1].(*ssa.Convert); isCv {
						if k, isK := cv.X.(*ssa.Const); isK && k.Value != nil && k.Value.ExactString() == stStorage.ExactString() {
							okK = true
						}
					}
				}
			}
			c.Decide(okK, "C17.confined", f, "every caller of CacheDB."+n+" passes the constant ST_STORAGE", c.P.Rel(f.Pos()), "inlined: the key is built with the constant prefix in "+f.Name())
			continue
		}
		sites := 0
		ok := true
		for _, e := range cg.In[f] {
			if e.Site == nil {
				continue
			}
			sites++
			k, isK := ir.Strip(e.Site.Common().Args[1]).(*ssa.Const)
			if !isK || k.Value == nil || k.Value.ExactString() != stStorage.ExactString() {
				ok = false
			}
		}
		c.Decide(ok && sites >= 1, "C17.confined", f, "every caller of CacheDB."+n+" passes the constant ST_STORAGE", c.P.Rel(f.Pos()), sprintf("%d call sites", sites))
	}
	if f := c.Fn(pkStorage, "CacheDB.NewIterator"); f != nil {
		ok := false
		for _, b := range f.Blocks {
			for _, in := range b.Instrs {
				if st, isSt := in.(*ssa.Store); isSt {
					if k, isK := ir.Strip(st.Val).(*ssa.Const); isK && k.Value != nil && k.Value.ExactString() == stStorage.ExactString() {
						if ia, isIA := st.Addr.(*ssa.IndexAddr); isIA {
							if i, okI := ir.ConstInt(ia.Index); okI && i == 0 {
								ok = true
							}
						}
					}
				}
			}
		}
		// or built by the package's key builder: makePrefixedKey(dst, ST_STORAGE, key)
		for _, ci := range ir.Calls(f, func(ci ssa.CallInstruction) bool {
			h := ci.Common().StaticCallee()
			return h != nil && h.Name() == "makePrefixedKey"
		}) {
			if a := ci.Common().Args; len(a) == 3 {
				if k, isK := ir.Strip(a[1]).(*ssa.Const); isK && k.Value != nil && k.Value.ExactString() == stStorage.ExactString() {
					ok = true
				}
			}
		}
		c.Decide(ok, "C17.confined", f, "iterator prefix byte 0 is ST_STORAGE", c.P.Rel(f.Pos()), "")
	}

	// (2) key algebra
	roots := c16Roots(c)
	uses := map[string]*shapeUse{}
	dupSeen := map[string]bool{}
	nSites := 0
	for _, r := range roots {
		sites, err := eng.KeySitesIn(c.P, r, 6)
		if err != nil {
			c.Broken("C17.keys", r, "key sites", "", err.Error())
			return
		}
		for _, s := range sites {
			nSites++
			sh := s.Shape.Norm()
			// a key that encodes the same value twice has lost one of the parameters that
			// should identify the record (records differing only in it collide)
			for i := 0; i < len(sh); i++ {
				for j := i + 1; j < len(sh); j++ {
					if sh[i].Kind == eng.AFix && sh[j].Kind == eng.AFix && sh[i].Val != nil && sh[j].Val != nil && sameValue(sh[i].Val, sh[j].Val) {
						if _, isConst := sh[i].Val.(*ssa.Const); isConst {
							continue
						}
						dupKey := ir.FuncName(s.Fn) + "|" + sh.Canon()
						if !dupSeen[dupKey] {
							dupSeen[dupKey] = true
							c.Violate("C17.injective", s.Fn, "key "+sh.Canon()+" encodes each identifying parameter once", c.P.Rel(s.Call.Pos()),
								sprintf("components %d and %d of the key encode the same value: a parameter that should distinguish records is missing from the key", i, j))
						}
					}
				}
			}
			key := sh.Canon()
			u := uses[key]
			if u == nil {
				u = &shapeUse{shape: sh, ops: map[string]bool{}, pkgs: map[string]bool{}, pos: c.P.Rel(s.Call.Pos()), fn: ir.FuncName(s.Fn)}
				uses[key] = u
			}
			u.ops[s.Op] = true
			if s.Fn.Pkg != nil {
				u.pkgs[s.Fn.Pkg.Pkg.Path()] = true
			}
		}
	}
	c.Floor("storage access sites reachable from handlers", nSites, 250)
	keys := make([]string, 0, len(uses))
	for k := range uses {
		keys = append(keys, k)
	}
	sort.Strings(keys)
	c.Floor("distinct key shapes", len(keys), 50)
	c.Note("%d access sites, %d distinct shapes", nSites, len(keys))

	// no contract atom / unresolved
	for _, k := range keys {
		u := uses[k]
		if u.shape.Contract() == "" {
			c.Violate("C17.keys-resolved", u.fn, "key "+k+" starts with a contract address", u.pos, "the key does not begin with a native contract address constant: it is not confined to a contract namespace")
		}
	}
	// injectivity
	for _, k := range keys {
		u := uses[k]
		c.Decide(!u.shape.Ambiguous(), "C17.injective", u.fn, "shape "+k+" has at most one unbounded atom", u.pos,
			"two variable-length fields in one key: different parameter tuples can concatenate to the same key")
	}
	// disjointness
	pairs, clashes := 0, 0
	for i := 0; i < len(keys); i++ {
		for j := i + 1; j < len(keys); j++ {
			a, b := uses[keys[i]], uses[keys[j]]
			if a.shape.Contract() != b.shape.Contract() || a.shape.Contract() == "" {
				continue
			}
			pairs++
			if a.shape.Unifies(b.shape) {
				continue // same record kind seen with different precision
			}
			if !eng.Intersects(a.shape, b.shape) {
				continue
			}
			if separatedByChainID(a, b) {
				continue
			}
			clashes++
			c.Violate("C17.disjoint", a.fn, "shapes "+keys[i]+" and "+keys[j]+" are disjoint", a.pos,
				"two different record kinds of one contract can produce the same storage key ("+b.fn+" @ "+b.pos+")")
		}
	}
	c.Hold("C17.disjoint", "", sprintf("%d shape pairs within a contract examined", pairs), "", sprintf("%d clashes", clashes))
	// pairing
	for _, k := range keys {
		u := uses[k]
		if !u.ops["Get"] && !u.ops["Delete"] && !u.ops["Iter"] {
			continue
		}
		if u.ops["Put"] {
			continue
		}
		found := false
		for _, k2 := range keys {
			v := uses[k2]
			if v.ops["Put"] && v.shape.Contract() == u.shape.Contract() && (v.shape.Unifies(u.shape) || (u.ops["Iter"] && prefixOf(u.shape, v.shape))) {
				found = true
				break
			}
		}
		ops := strings.Join(ir.SortedKeys(map[string]bool(u.ops)), "/")
		c.Decide(found, "C17.paired", u.fn, ops+" of shape "+k+" has a writer", u.pos, "a key shape that is read or deleted but never written: the access cannot observe what it is meant to")
	}
}

// prefixOf: iterator prefix p is a prefix of shape s.
func prefixOf(p, s eng.KeyShape) bool {
	pn, sn := p.Norm(), s.Norm()
	if len(pn) > len(sn) {
		return false
	}
	for i := range pn {
		if pn[i].Kind != sn[i].Kind {
			return false
		}
		switch pn[i].Kind {
		case eng.AContract:
			if pn[i].Lit != sn[i].Lit {
				return false
			}
		case eng.ALit:
			if i == len(pn)-1 {
				if !strings.HasPrefix(sn[i].Lit, pn[i].Lit) {
					return false
				}
			} else if pn[i].Lit != sn[i].Lit {
				return false
			}
		case eng.AFix:
			if pn[i].N != sn[i].N {
				return false
			}
		}
	}
	return true
}

// separatedByChainID: both shapes are used only by (different) router packages
// and carry Fix8 (the chain id) right after the leading literal.
func separatedByChainID(a, b *shapeUse) bool {
	ra, rb := map[string]bool{}, map[string]bool{}
	for p := range a.pkgs {
		r := routerPkg(p)
		if r == "" {
			return false
		}
		ra[r] = true
	}
	for p := range b.pkgs {
		r := routerPkg(p)
		if r == "" {
			return false
		}
		rb[r] = true
	}
	for r := range ra {
		if rb[r] {
			return false
		}
	}
	hasChain := func(s eng.KeyShape) bool {
		n := s.Norm()
		return len(n) >= 3 && n[0].Kind == eng.AContract && n[1].Kind == eng.ALit && n[2].Kind == eng.AFix && n[2].N == 8
	}
	return hasChain(a.shape) && hasChain(b.shape)
}
