package rules

import (
	"go/token"
	"strings"

	"golang.org/x/tools/go/ssa"

	"polyverif/core"
	"polyverif/eng"
	"polyverif/ir"
)

// C23 — EVM-family deposit proofs are sound.

func init() {
	core.Register(&core.Check{
		ID: "C23", Level: "other", Title: "EVM-family deposit proofs are sound and complete",
		Technique: "sibling template: guard dominance + value-flow identity across the nine EVM-trie routers",
		Explain:   "Soundness half, as a sibling template over the EVM-trie routers (eth, bsc, heco, hsc, msc, pixiechain, polygon-bor, bytom; quorum through its own entry): every accepting return of verifyFrom*Tx is dominated by (i) the confirmation tests best >= height and best-height >= BlocksToWait-1, (ii) the canonical/confirmed header lookup for that height err==nil, (iii) len(StorageProofs)==1, (iv) verifyMerkleProof(proof, that header, sideChain.CCMCAddress) err==nil and non-nil, (v) checkProofResult(result, extra)==true, (vi) MakeTxParam.Deserialization(extra) err==nil, and the returned message is the object decoded from the submitted extra. In each verifyMerkleProof: proof address == registered contract address; account trie.VerifyProof against header.Root with key keccak(address); rlp(account{…,Storage: storageHash,…}) == proven account value; storage trie.VerifyProof against THAT SAME storageHash value; the value returned is the storage proof's result. In each checkProofResult: true only under bytes.Equal(leftpad32(rlp-decoded result), keccak256(value)) — an exact 32-byte comparison. All nine instantiations must produce the same obligation list (sibling diff). NOT decided: the completeness half ('exactly when'), and that the proven storage KEY is the message's slot (the code does not bind it; observation).",
		Run:       runC23,
	})
}

var c23Pkgs = []string{"eth", "bsc", "heco", "hsc", "msc", "pixiechain", "polygon", "bytom"}

func findFuncPrefix(c *core.Ctx, pkg, prefix string) *ssa.Function {
	pk := c.P.Pkgs[ir.PkgPath(pkg)]
	if pk == nil || pk.SSA == nil {
		c.Broken("anchor", pkg, prefix+"*", "", "package not loaded")
		return nil
	}
	var found *ssa.Function
	n := 0
	for name, m := range pk.SSA.Members {
		if f, ok := m.(*ssa.Function); ok && strings.HasPrefix(strings.ToLower(name), strings.ToLower(prefix)) && len(f.Blocks) > 0 {
			if strings.HasSuffix(name, "Legacy") {
				continue
			}
			found = f
			n++
		}
	}
	if n != 1 {
		c.Broken("anchor", pkg, prefix+"*", "", sprintf("%d functions match", n))
		return nil
	}
	c.Touch(found)
	return found
}

func runC23(c *core.Ctx) {
	checkHexQuantities(c)
	sigs := map[string][]string{}
	for _, p := range c23Pkgs {
		pkg := "native/service/cross_chain_manager/" + p
		vf := findFuncPrefix(c, pkg, "verifyFrom")
		vmp := findFuncPrefix(c, pkg, "verifyMerkleProof")
		cpr := findFuncPrefix(c, pkg, "checkProofResult")
		if vf == nil || vmp == nil || cpr == nil {
			continue
		}
		before := len(c.Obls)
		checkVerifyFrom(c, vf, vmp, cpr, false)
		checkVerifyMerkleProof(c, vmp)
		checkCheckProofResult(c, cpr)
		for _, o := range c.Obls[before:] {
			sigs[p] = append(sigs[p], o.Rule+":"+o.Construct)
		}
	}
	// quorum: uses eth's helpers through verifyFromQuorumTx
	if q := findFuncPrefix(c, "native/service/cross_chain_manager/quorum", "verifyFrom"); q != nil {
		ethPkg := "native/service/cross_chain_manager/eth"
		vmp := c.Fn(ethPkg, "VerifyMerkleProofLegacy")
		cpr := c.Fn(ethPkg, "CheckProofResult")
		if vmp != nil && cpr != nil {
			checkVerifyFrom(c, q, vmp, cpr, true)
		}
		// VerifyMerkleProofLegacy delegates to VerifyMerkleProof with the converted header
		if vmp != nil {
			ok := false
			for _, ci := range ir.Calls(vmp, nil) {
				if o := ir.CalleeObj(ci); o != nil && o.Name() == "VerifyMerkleProof" {
					ok = true
				}
			}
			c.Decide(ok, "C23.merkle", vmp, "VerifyMerkleProofLegacy delegates to VerifyMerkleProof", c.P.Rel(vmp.Pos()), "")
		}
	}
	// sibling diff
	ref := sigs["eth"]
	for _, p := range c23Pkgs {
		same := len(sigs[p]) == len(ref)
		if same {
			for i := range ref {
				if sigs[p][i] != ref[i] {
					same = false
				}
			}
		}
		c.Decide(same, "C23.sibling-diff", "native/service/cross_chain_manager/"+p, "obligation list identical to the eth router's", "", sprintf("%d obligations", len(sigs[p])))
	}
	c.Floor("EVM-trie routers analysed", len(sigs), 8)
}

// rootedInCall: v is reached from result #0 of call through field selections and loads.
func rootedInCall(v ssa.Value, call *ssa.Call, depth int) bool {
	for i := 0; i < depth && v != nil; i++ {
		if cl, idx := ir.CallOf(v); cl != nil {
			return cl == call && idx <= 0
		}
		switch x := v.(type) {
		case *ssa.UnOp:
			v = x.X
		case *ssa.FieldAddr:
			v = x.X
		case *ssa.Field:
			v = x.X
		default:
			return false
		}
	}
	return false
}

func paramNamed(names ...string) func(ssa.Value) bool {
	return func(v ssa.Value) bool {
		p, ok := ir.Strip(v).(*ssa.Parameter)
		if !ok {
			return false
		}
		for _, n := range names {
			if p.Name() == n {
				return true
			}
		}
		return false
	}
}

func checkVerifyFrom(c *core.Ctx, fn, vmp, cpr *ssa.Function, quorum bool) {
	sinks := nonNilParamSuccess(fn)
	if quorum {
		sinks = ir.SuccessSinks(fn)
	}
	isHeight := paramNamed("height")
	isExtra := paramNamed("extra")
	if !quorum {
		// best height value: converted result of a current-height getter
		isBest := func(v ssa.Value) bool {
			cv, ok := ir.Resolve(v).(*ssa.Convert)
			if !ok {
				return false
			}
			x := cv.X
			if cl, _ := ir.CallOf(x); cl != nil {
				return true // GetCanonicalHeight(...) or header.Number.Uint64()
			}
			return false
		}
		eng.Dominates(c, "C23.confirmed", fn, relGuard("best >= height", isBest, isHeight, token.GEQ), sinks, "accepting return", nil)
		isDiff := func(v ssa.Value) bool {
			sub, ok := ir.Resolve(v).(*ssa.BinOp)
			return ok && sub.Op == token.SUB && isBest(sub.X) && isHeight(sub.Y)
		}
		isWait := func(v ssa.Value) bool {
			cv, ok := ir.Resolve(v).(*ssa.Convert)
			if !ok {
				return false
			}
			w, ok := ir.Resolve(cv.X).(*ssa.BinOp)
			if !ok || w.Op != token.SUB || !isFieldNamed(w.X, "BlocksToWait") {
				return false
			}
			k, okk := ir.ConstInt(w.Y)
			return okk && k == 1
		}
		eng.Dominates(c, "C23.confirmed", fn, relGuard("best - height >= BlocksToWait - 1", isDiff, isWait, token.GEQ), sinks, "accepting return", nil)
	}
	// header lookup for that height
	var hdrCall *ssa.Call
	if !quorum {
		lookup := eng.NamedGuard{Name: "header lookup at the proof height err==nil", G: ir.ErrNil(func(cl *ssa.Call) bool {
			o := ir.CalleeObj(cl)
			if o == nil || (o.Name() != "GetHeaderByHeight" && o.Name() != "GetCanonicalHeader") {
				return false
			}
			for _, a := range cl.Common().Args {
				if cv, ok := a.(*ssa.Convert); ok && isHeight(cv.X) {
					hdrCall = cl
					return true
				}
			}
			return false
		})}
		eng.Dominates(c, "C23.canonical-header", fn, lookup, sinks, "accepting return", nil)
	}
	dominatesEq(c, "C23.proof-format", fn, "len(StorageProofs) == 1", eng.IsLenOf(func(v ssa.Value) bool { return isFieldNamed(v, "StorageProofs") }), isConstInt(1), sinks, "accepting return")
	vmpObj := vmp.Object()
	var mpCall *ssa.Call
	isMP := func(cl *ssa.Call) bool {
		f := cl.Common().StaticCallee()
		if f == nil || f.Object() != vmpObj {
			return false
		}
		a := cl.Common().Args
		if !isFieldNamed(a[2], "CCMCAddress") {
			return false
		}
		if !quorum {
			// header argument derives from the lookup
			if hdrCall == nil || !rootedInCall(a[1], hdrCall, 8) {
				return false
			}
		} else if !paramNamed("hdr")(a[1]) {
			return false
		}
		mpCall = cl
		return true
	}
	eng.Dominates(c, "C23.merkle", fn, eng.NamedGuard{Name: "verifyMerkleProof(proof, header, CCMCAddress) err==nil", G: ir.ErrNil(isMP)}, sinks, "accepting return", nil)
	eng.Dominates(c, "C23.merkle", fn, eng.NamedGuard{Name: "verifyMerkleProof result != nil", G: ir.NotNil(isMP)}, sinks, "accepting return", nil)
	cprObj := cpr.Object()
	eng.Dominates(c, "C23.value-hash", fn, eng.NamedGuard{Name: "checkProofResult(proofResult, extra) == true", G: ir.BoolIs(func(cl *ssa.Call) bool {
		f := cl.Common().StaticCallee()
		if f == nil || f.Object() != cprObj {
			return false
		}
		a := cl.Common().Args
		r, idx := ir.CallOf(a[0])
		return r != nil && r == mpCall && idx == 0 && isExtra(a[1])
	}, true)}, sinks, "accepting return", nil)
	if !quorum {
		// message decoded from extra and returned
		var des *ssa.Call
		decoded := eng.NamedGuard{Name: "MakeTxParam.Deserialization(NewZeroCopySource(extra)) err==nil", G: ir.ErrNil(func(cl *ssa.Call) bool {
			o := ir.CalleeObj(cl)
			if o == nil || o.Name() != "Deserialization" {
				return false
			}
			src := calleeNamed(cl.Common().Args[1], "NewZeroCopySource")
			if src == nil || !isExtra(src.Common().Args[0]) {
				return false
			}
			des = cl
			return true
		})}
		eng.Dominates(c, "C23.message-is-submitted", fn, decoded, sinks, "accepting return", nil)
		okRet := des != nil
		for _, s := range sinks {
			ret := s.Instr.(*ssa.Return)
			if des == nil || ir.Strip(ret.Results[0]) != ir.Strip(des.Common().Args[0]) {
				okRet = false
			}
		}
		c.Decide(okRet, "C23.message-is-submitted", fn, "the returned message is the object decoded from extra", c.P.Rel(fn.Pos()), "")
	}
}

func checkVerifyMerkleProof(c *core.Ctx, fn *ssa.Function) {
	sinks := nonNilParamSuccess(fn)
	isAddrParam := paramNamed("contractAddr")
	eng.Dominates(c, "C23.merkle", fn, eng.NamedGuard{Name: "proof address == registered contract address", G: ir.BoolIs(func(cl *ssa.Call) bool {
		if !bytesEqual(cl) {
			return false
		}
		a := cl.Common().Args
		return isAddrParam(a[0]) || isAddrParam(a[1])
	}, true)}, sinks, "success return", nil)
	// the two trie.VerifyProof calls
	var vps []*ssa.Call
	for _, ci := range ir.Calls(fn, nil) {
		if o := ir.CalleeObj(ci); o != nil && o.Name() == "VerifyProof" && o.Pkg() != nil && strings.HasSuffix(o.Pkg().Path(), "/trie") {
			if cl, ok := ci.(*ssa.Call); ok {
				vps = append(vps, cl)
			}
		}
	}
	if len(vps) != 2 {
		c.Broken("C23.merkle", fn, "two trie.VerifyProof calls", c.P.Rel(fn.Pos()), sprintf("%d", len(vps)))
		return
	}
	acct, stor := vps[0], vps[1]
	for _, v := range vps {
		vv := v
		eng.Dominates(c, "C23.merkle", fn, eng.NamedGuard{Name: "trie.VerifyProof err==nil", G: ir.ErrNil(func(cl *ssa.Call) bool { return cl == vv })}, sinks, "success return", nil)
	}
	okRoot := isFieldNamed(acct.Common().Args[0], "Root") && rootedIn(acct.Common().Args[0], "blockData", 8)
	c.Decide(okRoot, "C23.merkle", fn, "account proof is verified against the header's state root", c.P.Rel(acct.Pos()), "")
	k := calleeNamed(acct.Common().Args[1], "Keccak256")
	c.Decide(k != nil, "C23.merkle", fn, "account key = keccak256(address)", c.P.Rel(acct.Pos()), "")
	// rlp(account) == proven account value
	eng.Dominates(c, "C23.merkle", fn, eng.NamedGuard{Name: "rlp(account) == proven account value", G: ir.BoolIs(func(cl *ssa.Call) bool {
		if !bytesEqual(cl) {
			return false
		}
		a := cl.Common().Args
		is := func(v ssa.Value) bool { r, idx := ir.CallOf(v); return r == acct && idx == 0 }
		enc := func(v ssa.Value) bool { return calleeNamed(v, "EncodeToBytes") != nil }
		return (is(a[0]) && enc(a[1])) || (is(a[1]) && enc(a[0]))
	}, true)}, sinks, "success return", nil)
	// the storage root used for the storage proof is the one placed in the compared account
	root := ir.Strip(stor.Common().Args[0])
	okSame := false
	for _, b := range fn.Blocks {
		for _, in := range b.Instrs {
			if st, ok := in.(*ssa.Store); ok {
				if fa, isFA := st.Addr.(*ssa.FieldAddr); isFA && fieldNameOf(fa) == "Storage" {
					if ir.Strip(st.Val) == root || sameValue(st.Val, stor.Common().Args[0]) {
						okSame = true
					}
				}
			}
		}
	}
	// or read back from the account object that is encoded and compared with the proven value
	if ld, isLd := root.(*ssa.UnOp); isLd && !okSame && ld.Op == token.MUL {
		if fa, isFA := ld.X.(*ssa.FieldAddr); isFA && fieldNameOf(fa) == "Storage" {
			for _, ci := range ir.Calls(fn, func(ci ssa.CallInstruction) bool {
				o := ir.CalleeObj(ci)
				return o != nil && o.Name() == "EncodeToBytes"
			}) {
				if len(ci.Common().Args) > 0 && ir.Strip(ci.Common().Args[0]) == ir.Strip(fa.X) {
					okSame = true
				}
			}
		}
	}
	c.Decide(okSame, "C23.merkle", fn, "storage proof is verified against the storage root that was authenticated in the account", c.P.Rel(stor.Pos()), "")
	okRet := len(sinks) > 0
	for _, s := range sinks {
		ret := s.Instr.(*ssa.Return)
		r, idx := ir.CallOf(ret.Results[0])
		if r != stor || idx != 0 {
			okRet = false
		}
	}
	c.Decide(okRet, "C23.merkle", fn, "the value returned is the storage proof's result", c.P.Rel(fn.Pos()), "")
}

func checkCheckProofResult(c *core.Ctx, fn *ssa.Function) {
	isValue := paramNamed("value")
	g := eng.NamedGuard{Name: "bytes.Equal(leftpad32(decoded), keccak256(value))", G: ir.BoolIs(func(cl *ssa.Call) bool {
		if !bytesEqual(cl) {
			return false
		}
		a := cl.Common().Args
		isHash := func(v ssa.Value) bool {
			k := calleeNamed(v, "Keccak256")
			if k == nil {
				return false
			}
			els := eng.VariadicElems(k.Common().Args[0])
			return len(els) == 1 && isValue(els[0])
		}
		return isHash(a[0]) || isHash(a[1])
	}, true)}
	eng.Dominates(c, "C23.value-hash", fn, g, ir.BoolReturnSinks(fn, 0, true), "return true", nil)
	// the padding pads to exactly 32 bytes: the width 32 bounds the pad loop (counted up to 32, or
	// counted down from 32 − len), in the function or in a same-package helper it calls
	ok32 := false
	hosts, releaseHosts := hostsWithHelpers(fn)
	for _, host := range hosts {
		for _, bb := range host.Blocks {
			for _, in := range bb.Instrs {
				b, ok := in.(*ssa.BinOp)
				if !ok {
					continue
				}
				switch b.Op {
				case token.LSS, token.LEQ, token.GTR, token.GEQ, token.SUB:
					if k, okk := ir.ConstInt(b.Y); okk && k == 32 {
						ok32 = true
					}
					if k, okk := ir.ConstInt(b.X); okk && k == 32 {
						ok32 = true
					}
				}
			}
		}
	}
	releaseHosts()
	c.Decide(ok32, "C23.value-hash", fn, "the proven value is left-padded to 32 bytes before the comparison", c.P.Rel(fn.Pos()), "")
}
