package rules

import (
	"go/token"

	"golang.org/x/tools/go/ssa"

	"polyverif/core"
	"polyverif/eng"
	"polyverif/ir"
)

// C31 — Ontology and NEO light clients follow authenticated validator changes.

func init() {
	core.Register(&core.Check{
		ID: "C31", Level: "other", Title: "Ontology and NEO light clients follow authenticated validator changes",
		Technique: "sibling template: guard dominance + loop-iteration rules + value flow",
		Explain:   "Ontology: ont.verifyHeader passes the same quorum template as C24 (count test 3·len(Bookkeepers) >= len(PeerMap) of the peer set at FindKeyHeight(header.Height), per-iteration membership + distinctness over header.Bookkeepers, VerifyMultiSignature(header.Hash(), Bookkeepers, len(Bookkeepers), SigData)); in SyncBlockHeader PutBlockHeader and UpdateConsensusPeer are dominated by verifyHeader err==nil for that same header; UpdateConsensusPeer records a peer set only under NewChainConfig != nil, at Height = header.Height, from that header's own consensus payload; putConsensusPeers is called only from UpdateConsensusPeer, whose callers are SyncBlockHeader (after verification) and SyncGenesisHeader (operator-witnessed, C18); FindKeyHeight returns only a key height strictly below the queried height. NEO / N3 / legacy N3: in SyncBlockHeader the new tracked consensus is created only under header index > tracked height and verifyHeader err==nil for that header, carries that header's index and next-consensus, and only such an object reaches putConsensusValByChainId; verifyHeader returns nil only when the header witness's script hash equals the tracked NextConsensus and VerifyMultiSignatureWitness over the header's own message is true. NOT decided: that FindKeyHeight returns the GREATEST key height below (depends on the stored list order).",
		Run:       runC31,
	})
}

func runC31(c *core.Ctx) {
	accessorPairs(c, "C31.accessor-keys", 5, "native/service/header_sync/ont", "native/service/header_sync/neo", "native/service/header_sync/neo3", "native/service/header_sync/neo3legacy")
	checkOntKeyHeightOrder(c, "C31.key-height-order")
	isHeader := func(v ssa.Value) bool { p, ok := ir.Strip(v).(*ssa.Parameter); return ok && p.Name() == "header" }
	isBk := func(v ssa.Value) bool {
		base, f, ok := fieldLoad(v)
		return ok && f == "Bookkeepers" && isHeader(base)
	}
	ontQuorumTemplate(c, "C31", c.Fn(pkOntHS, "verifyHeader"), isBk, isHeader)

	// ont SyncBlockHeader
	vh := eng.Obj(c, pkOntHS, "verifyHeader")
	pbh := eng.Obj(c, pkOntHS, "PutBlockHeader")
	ucp := eng.Obj(c, pkOntHS, "UpdateConsensusPeer")
	if fn := c.Fn(pkOntHS, "ONTHandler.SyncBlockHeader"); fn != nil && vh != nil && pbh != nil && ucp != nil {
		// in SyncBlockHeader itself, or in a same-package helper that verifies and records one header
		hosts, releaseHosts := hostsWithHelpers(fn)
		nRec := 0
		for _, host := range hosts {
			if host != fn && len(ir.CallsTo(host, pbh, ucp)) > 0 {
				c.Attribute(host, fn)
			}
			for _, ci := range ir.CallsTo(host, pbh, ucp) {
				nRec++
				hdr := ci.Common().Args[2]
				g := eng.NamedGuard{Name: "verifyHeader(same header) err==nil", G: ir.ErrNil(func(cl *ssa.Call) bool {
					return ir.CalleeIs(cl, vh) && sameValue(cl.Common().Args[2], hdr)
				})}
				eng.Dominates(c, "C31.recorded-only-if-verified", host, g, []ir.Sink{{Instr: ci, Note: callDesc(ci)}}, callDesc(ci), nil)
			}
		}
		releaseHosts()
		c.Floor("PutBlockHeader/UpdateConsensusPeer calls in ont SyncBlockHeader", nRec, 2)
	}
	// UpdateConsensusPeer
	pcp := eng.Obj(c, pkOntHS, "putConsensusPeers")
	if fn := c.Fn(pkOntHS, "UpdateConsensusPeer"); fn != nil && pcp != nil {
		puts := ir.CallsTo(fn, pcp)
		c.Floor("putConsensusPeers in UpdateConsensusPeer", len(puts), 1)
		eng.Dominates(c, "C31.peers-from-announcing-header", fn, cmpGuard("blkInfo.NewChainConfig != nil", func(b *ssa.BinOp) (bool, bool) {
			x, neq, ok := ir.NilCmp(b)
			if !ok || !isFieldNamed(x, "NewChainConfig") {
				return false, false
			}
			return true, neq
		}), ir.CallSinks(puts, "putConsensusPeers"), "putConsensusPeers", nil)
		// json.Unmarshal(header.ConsensusPayload, blkInfo)
		okSrc := false
		for _, ci := range ir.Calls(fn, func(ci ssa.CallInstruction) bool { return ir.IsPkgFunc(ci, "encoding/json", "Unmarshal") }) {
			base, f, ok := fieldLoad(ci.Common().Args[0])
			if ok && f == "ConsensusPayload" && isHeader(base) {
				okSrc = true
			}
		}
		c.Decide(okSrc, "C31.peers-from-announcing-header", fn, "the peer set is decoded from header.ConsensusPayload", c.P.Rel(fn.Pos()), "")
		// Height field of the stored record = header.Height
		okH := false
		for _, b := range fn.Blocks {
			for _, in := range b.Instrs {
				if st, ok := in.(*ssa.Store); ok {
					if fa, isFA := st.Addr.(*ssa.FieldAddr); isFA && fieldNameOf(fa) == "Height" {
						base, f, okf := fieldLoad(st.Val)
						if okf && f == "Height" && isHeader(base) {
							okH = true
						}
					}
				}
			}
		}
		c.Decide(okH, "C31.peers-from-announcing-header", fn, "the peer set is recorded at key height = header.Height", c.P.Rel(fn.Pos()), "")
	}
	// who may record peers
	cg := c.P.CG()
	if f := c.Fn(pkOntHS, "putConsensusPeers"); f != nil {
		var names []string
		_ = cg
		for _, x := range c.P.EffectiveCallers(f, func(y *ssa.Function) bool {
			return ir.FuncName(y) == "native/service/header_sync/ont.UpdateConsensusPeer"
		}) {
			names = append(names, ir.FuncName(x))
		}
		c.Decide(len(names) == 1 && names[0] == "native/service/header_sync/ont.UpdateConsensusPeer", "C31.who-may-record-peers", f, "putConsensusPeers called only from UpdateConsensusPeer", c.P.Rel(f.Pos()), sprintf("%v", names))
	}
	if f := c.Fn(pkOntHS, "UpdateConsensusPeer"); f != nil {
		okC := true
		var names []string
		for _, x := range c.P.EffectiveCallers(f, func(y *ssa.Function) bool {
			n := ir.FuncName(y)
			return n == "(*native/service/header_sync/ont.ONTHandler).SyncBlockHeader" || n == "(*native/service/header_sync/ont.ONTHandler).SyncGenesisHeader"
		}) {
			n := ir.FuncName(x)
			names = append(names, n)
			if n != "(*native/service/header_sync/ont.ONTHandler).SyncBlockHeader" && n != "(*native/service/header_sync/ont.ONTHandler).SyncGenesisHeader" {
				okC = false
			}
		}
		c.Decide(okC && len(names) == 2, "C31.who-may-record-peers", f, "UpdateConsensusPeer called only from SyncBlockHeader and SyncGenesisHeader", c.P.Rel(f.Pos()), sprintf("%v", names))
	}
	// FindKeyHeight
	checkKeyHeightBelow(c, "C31.key-height-below")

	// NEO family
	for _, x := range []struct{ pkg, typ string }{
		{"native/service/header_sync/neo", "NEOHandler"},
		{"native/service/header_sync/neo3", "Neo3Handler"},
		{"native/service/header_sync/neo3legacy", "Neo3Handler"},
	} {
		fn := c.Fn(x.pkg, x.typ+".SyncBlockHeader")
		nvh := eng.Obj(c, x.pkg, "verifyHeader")
		gcv := eng.Obj(c, x.pkg, "getConsensusValByChainId")
		pcv := eng.Obj(c, x.pkg, "putConsensusValByChainId")
		if fn == nil || nvh == nil || gcv == nil || pcv == nil {
			continue
		}
		// allocations of the new consensus object
		consObj, _ := c.P.Obj(x.pkg, "NeoConsensus")
		var allocs []*ssa.Alloc
		for _, b := range fn.Blocks {
			for _, in := range b.Instrs {
				if al, ok := in.(*ssa.Alloc); ok && al.Heap && consObj != nil {
					if pt, isP := al.Type().Underlying().(interface{ Elem() interface{} }); isP {
						_ = pt
					}
					if al.Type().String() == "*"+consObj.Type().String() {
						allocs = append(allocs, al)
					}
				}
			}
		}
		if len(allocs) != 1 {
			c.Broken("C31.neo-change-authenticated", fn, "new NeoConsensus object", c.P.Rel(fn.Pos()), sprintf("%d allocations", len(allocs)))
			continue
		}
		al := allocs[0]
		sinks := []ir.Sink{{Instr: al, Note: "new tracked consensus"}}
		higher := relGuard("header index > tracked height",
			func(v ssa.Value) bool {
				if isFieldNamed(v, "Index") {
					return true
				}
				cl, _ := ir.CallOf(v)
				return cl != nil && ir.CalleeObj(cl) != nil && ir.CalleeObj(cl).Name() == "GetIndex"
			},
			func(v ssa.Value) bool {
				base, f, ok := fieldLoad(v)
				return ok && f == "Height" && isCallTo(base, gcv)
			}, token.GTR)
		eng.Dominates(c, "C31.neo-change-authenticated", fn, higher, sinks, "new tracked consensus", nil)
		eng.Dominates(c, "C31.neo-change-authenticated", fn, eng.ErrNilOf("verifyHeader", nvh), sinks, "new tracked consensus", nil)
		// only that object (or nil) reaches putConsensusValByChainId
		for _, p := range ir.CallsTo(fn, pcv) {
			leaves := eng.PhiLeaves(nil, p.Common().Args[1])
			okOnly := len(leaves) > 0
			for _, l := range leaves {
				if l != ssa.Value(al) && !ir.IsNilConst(l) {
					okOnly = false
				}
			}
			c.Decide(okOnly, "C31.neo-change-authenticated", fn, "only the authenticated object is stored as the tracked consensus", c.P.Rel(p.Pos()), "")
		}
		// fields of the new object come from that header
		got := map[string]ssa.Value{}
		for _, ref := range *al.Referrers() {
			if fa, ok := ref.(*ssa.FieldAddr); ok {
				for _, r2 := range *fa.Referrers() {
					if st, ok := r2.(*ssa.Store); ok && st.Addr == ssa.Value(fa) {
						got[fieldNameOf(fa)] = st.Val
					}
				}
			}
		}
		fromHeader := func(v ssa.Value, field, getter string) bool {
			if v == nil {
				return false
			}
			if _, f, ok := fieldLoad(v); ok && f == field {
				return true
			}
			cl, _ := ir.CallOf(v)
			return cl != nil && ir.CalleeObj(cl) != nil && ir.CalleeObj(cl).Name() == getter
		}
		c.Decide(fromHeader(got["Height"], "Index", "GetIndex") && fromHeader(got["NextConsensus"], "NextConsensus", "GetNextConsensus"), "C31.neo-change-authenticated", fn, "new tracked consensus = (header index, header next-consensus)", c.P.Rel(al.Pos()), "")

		// verifyHeader
		vfn := c.Fn(x.pkg, "verifyHeader")
		if vfn == nil {
			continue
		}
		succ := ir.SuccessSinks(vfn)
		eng.Dominates(c, "C31.neo-header-witness", vfn, eng.ErrNilOf("getConsensusValByChainId", gcv), succ, "nil return", nil)
		tracked := func(v ssa.Value) bool {
			base, f, ok := fieldLoad(v)
			if ok && f == "NextConsensus" && isCallTo(base, gcv) {
				return true
			}
			// address-of form for method receivers
			if fa, isFA := v.(*ssa.FieldAddr); isFA && fieldNameOf(fa) == "NextConsensus" && isCallTo(fa.X, gcv) {
				return true
			}
			return false
		}
		witHash := func(v ssa.Value) bool {
			cl, _ := ir.CallOf(v)
			if cl == nil || ir.CalleeObj(cl) == nil || ir.CalleeObj(cl).Name() != "GetScriptHash" {
				return false
			}
			return rootedIn(cl.Common().Args[0], "header", 8)
		}
		script := eng.NamedGuard{Name: "tracked NextConsensus == header witness script hash", G: func(cd ir.Cond) (bool, bool) {
			if b, ok := cd.V.(*ssa.BinOp); ok && (b.Op == token.EQL || b.Op == token.NEQ) {
				if (tracked(b.X) && witHash(b.Y)) || (tracked(b.Y) && witHash(b.X)) {
					return true, b.Op == token.EQL
				}
				return false, false
			}
			cl, _ := ir.CallOf(cd.V)
			if cl != nil && ir.CalleeObj(cl) != nil && ir.CalleeObj(cl).Name() == "Equals" {
				a := cl.Common().Args
				if (tracked(a[0]) && witHash(a[1])) || (tracked(a[1]) && witHash(a[0])) {
					return true, true
				}
			}
			return false, false
		}}
		eng.Dominates(c, "C31.neo-header-witness", vfn, script, succ, "nil return", nil)
		wit := eng.NamedGuard{Name: "VerifyMultiSignatureWitness(header.GetMessage(), header.Witness) == true", G: ir.BoolIs(func(cl *ssa.Call) bool {
			o := ir.CalleeObj(cl)
			if o == nil || o.Name() != "VerifyMultiSignatureWitness" {
				return false
			}
			m, _ := ir.CallOf(cl.Common().Args[0])
			if m == nil || ir.CalleeObj(m) == nil || ir.CalleeObj(m).Name() != "GetMessage" || !rootedIn(m.Common().Args[0], "header", 6) {
				return false
			}
			return rootedIn(cl.Common().Args[1], "header", 8)
		}, true)}
		eng.Dominates(c, "C31.neo-header-witness", vfn, wit, succ, "nil return", nil)
	}
}

// checkKeyHeightBelow: FindKeyHeight answers only a key height STRICTLY below the queried height — the block
// at a key height is itself still signed by the previous validator set (shared by C24 and C31).
func checkKeyHeightBelow(c *core.Ctx, rule string) {
	if fn := c.Fn(pkOntHS, "FindKeyHeight"); fn != nil {
		eng.Dominates(c, rule, fn, cmpGuard("height > v", func(b *ssa.BinOp) (bool, bool) {
			isParam := func(v ssa.Value) bool { p, ok := ir.Strip(v).(*ssa.Parameter); return ok && p.Name() == "height" }
			switch b.Op {
			case token.GTR:
				if isParam(b.X) {
					return true, true
				}
			case token.LSS:
				if isParam(b.Y) {
					return true, true
				}
			case token.LEQ:
				if isParam(b.X) {
					return true, false
				}
			case token.GEQ:
				if isParam(b.Y) {
					return true, false
				}
			}
			return false, false
		}), ir.SuccessSinks(fn), "nil-error return", nil)
	}

}
