package rules

import (
	"golang.org/x/tools/go/ssa"

	"polyverif/core"
	"polyverif/ir"
)

// checkNewBatchDiscards: "a discarded layer leaves no trace" needs the backend's NewBatch to throw away
// whatever was staged and never committed: on every path NewBatch installs a FRESH batch object.  A batch
// that is kept when one already exists lets an abandoned CommitTo (or one whose write failed) leak into the
// next commit.
func checkNewBatchDiscards(c *core.Ctx, rule string) {
	fn := c.Fn("core/store/leveldbstore", "LevelDBStore.NewBatch")
	if fn == nil {
		return
	}
	var fresh []ssa.Instruction
	for _, st := range fieldStores(fn, nil, "batch") {
		if al, ok := ir.Strip(st.(*ssa.Store).Val).(*ssa.Alloc); ok && al.Heap {
			fresh = append(fresh, st)
		}
	}
	r := ir.NewReach(fn)
	for _, st := range fresh {
		r.Barrier[st] = true
	}
	r.Run(nil)
	leak := ""
	for _, s := range ir.SuccessSinks(fn) {
		if r.SinkReachable(s) {
			leak = "NewBatch can return at " + c.P.Rel(s.Instr.Pos()) + " without having replaced the pending batch"
		}
	}
	c.Decide(len(fresh) > 0 && leak == "", rule, fn, "NewBatch installs a fresh batch on every path (what was staged and not committed is dropped)", c.P.Rel(fn.Pos()), leak)
}
