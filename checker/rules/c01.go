package rules

import (
	"go/token"
	"math"
	"sort"
	"strings"

	"golang.org/x/tools/go/ssa"

	"polyverif/core"
	"polyverif/eng"
	"polyverif/ir"
)

// C01 — binary codec round-trips and fails safely on truncated input.

const pkSerialization = "common/serialization"

func init() {
	core.Register(&core.Check{
		ID: "C01", Level: "other", Title: "Binary codec round-trips and fails safely on truncated input",
		Technique: "decision-table extraction by interval analysis over the comparison chain of the var-uint encoders and the tag switch of the decoders, sibling table agreement, guard dominance for every buffer access, who-may-index on the source buffer, callee identity for byte order and width",
		Explain:   "Decided statically on package common and common/serialization. (Var-uint tables) from ZeroCopySink.WriteVarUint, serialization.WriteVarUint and GetVarUintSize the table (interval of the value → tag byte, payload width) is extracted by intersecting the dominating comparisons of the value parameter; the tables must partition [0, 2^64), be identical in all three, use the direct form only below 0xFD (a one-byte value can never be taken for a tag), never truncate (upper bound < 2^(8·width)) and report size = 1 + width; the decoders ZeroCopySource.NextVarUint and serialization.ReadVarUint map tags 0xFD/0xFE/0xFF to widths 2/4/8 and anything else to the byte itself. (Bounds) only NextBytes, Skip, NextByte, OffBytes and Bytes touch the source buffer; in NextBytes/Skip the end position is SafeAdd's sum only on the edge where neither the overflow flag nor end > len holds and len otherwise; NextByte indexes only after off < len; SafeAdd reports overflow as y > MAX_UINT64 - x; every fixed-width reader decodes its bytes only on the !eof edge of the NextBytes call that produced them, and NextVarBytes reads its body only after the length was read without eof. (Pairing) WriteUintN/NextUintN and the stream variants use binary.LittleEndian Put/UintN of the same N, and readers request exactly N/8 bytes. (Bool) NextBool answers a value only for bytes 0 and 1 and reports an error for any other byte. NOT decided: round-trip equality of values as such, BackUp misuse by callers, the large-length path of the stream byte reader.",
		Run:       runC01,
	})
}

type ivl struct{ lo, hi uint64 }

// intervalAt: the range of the unsigned value v at block blk implied by the dominating comparisons of v with constants.
func intervalAt(fn *ssa.Function, v ssa.Value, blk *ssa.BasicBlock) (ivl, bool) {
	cur := ivl{0, math.MaxUint64}
	okAll := true
	for _, cd := range ir.Conds(fn) {
		b, ok := cd.V.(*ssa.BinOp)
		if !ok {
			continue
		}
		var op token.Token
		var kv ssa.Value
		switch {
		case ir.Strip(b.X) == v:
			op, kv = b.Op, b.Y
		case ir.Strip(b.Y) == v:
			op, kv = relMirror(b.Op), b.X
		default:
			continue
		}
		kc, isK := kv.(*ssa.Const)
		if !isK || kc.Value == nil {
			continue
		}
		k := kc.Uint64()
		from := cd.If.Block()
		t, f := from.Succs[0], from.Succs[1]
		onT := len(t.Preds) == 1 && (t == blk || t.Dominates(blk))
		onF := len(f.Preds) == 1 && (f == blk || f.Dominates(blk))
		if onT == onF {
			continue
		}
		if !onT {
			op = relNegate(op)
		}
		switch op {
		case token.LSS:
			if k == 0 {
				okAll = false
			} else if k-1 < cur.hi {
				cur.hi = k - 1
			}
		case token.LEQ:
			if k < cur.hi {
				cur.hi = k
			}
		case token.GTR:
			if k == math.MaxUint64 {
				okAll = false
			} else if k+1 > cur.lo {
				cur.lo = k + 1
			}
		case token.GEQ:
			if k > cur.lo {
				cur.lo = k
			}
		case token.EQL:
			cur.lo, cur.hi = k, k
		}
	}
	return cur, okAll
}

type vuRow struct {
	iv    ivl
	tag   int64 // -1: the value itself
	width int   // payload bytes
	size  int64 // reported size (−1 unknown)
}

// writerTable extracts the var-uint table of an encoder: rows keyed by the block that stores buf[0].
func writerTable(c *core.Ctx, fn *ssa.Function) ([]vuRow, string) {
	var valP *ssa.Parameter
	for _, p := range fn.Params {
		if p.Type().String() == "uint64" {
			valP = p
		}
	}
	if valP == nil {
		return nil, "no uint64 parameter"
	}
	var rows []vuRow
	for _, b := range fn.Blocks {
		var tag *int64
		width := 0
		for _, in := range b.Instrs {
			switch x := in.(type) {
			case *ssa.Store:
				ia, ok := x.Addr.(*ssa.IndexAddr)
				if !ok {
					continue
				}
				if i, oki := ir.ConstInt(ia.Index); !oki || i != 0 {
					continue
				}
				if k, okk := ir.ConstInt(x.Val); okk {
					kk := k
					tag = &kk
				} else if ir.Strip(x.Val) == ssa.Value(valP) {
					kk := int64(-1)
					tag = &kk
				}
			case ssa.CallInstruction:
				if o := ir.CalleeObj(x); o != nil && strings.HasPrefix(o.Name(), "PutUint") && o.Pkg() != nil && o.Pkg().Path() == "encoding/binary" {
					switch o.Name() {
					case "PutUint16":
						width = 2
					case "PutUint32":
						width = 4
					case "PutUint64":
						width = 8
					}
				}
			}
		}
		if tag == nil {
			continue
		}
		iv, ok := intervalAt(fn, valP, b)
		if !ok {
			return nil, "interval not representable"
		}
		rows = append(rows, vuRow{iv: iv, tag: *tag, width: width, size: -1})
	}
	if len(rows) == 0 {
		// the table may sit in a helper handed the value (putVarUint(&buf, value))
		for _, ci := range ir.Calls(fn, nil) {
			h := ci.Common().StaticCallee()
			if h == nil || h == fn || len(h.Blocks) == 0 || h.Pkg != fn.Pkg {
				continue
			}
			passes := false
			for _, a := range ci.Common().Args {
				if ir.Strip(a) == ssa.Value(valP) {
					passes = true
				}
			}
			if passes {
				if r2, why := writerTable(c, h); len(r2) > 0 {
					c.Touch(h)
					return r2, why
				}
			}
		}
		return nil, "no block stores the first byte of the encoding"
	}
	sort.Slice(rows, func(i, j int) bool { return rows[i].iv.lo < rows[j].iv.lo })
	return rows, ""
}

func tableString(rows []vuRow) string {
	var s []string
	for _, r := range rows {
		t := "value"
		if r.tag >= 0 {
			t = sprintf("0x%X", r.tag)
		}
		s = append(s, sprintf("[0x%X,0x%X]→%s+%d", r.iv.lo, r.iv.hi, t, r.width))
	}
	return strings.Join(s, " ")
}

func checkWriterTable(c *core.Ctx, fn *ssa.Function) string {
	rows, why := writerTable(c, fn)
	if rows == nil {
		c.Broken("C01.varuint", fn, "var-uint table", c.P.Rel(fn.Pos()), why)
		return ""
	}
	ts := tableString(rows)
	c.Touch(fn)
	// partition
	okPart := len(rows) == 4 && rows[0].iv.lo == 0 && rows[len(rows)-1].iv.hi == math.MaxUint64
	for i := 1; i < len(rows) && okPart; i++ {
		if rows[i].iv.lo != rows[i-1].iv.hi+1 {
			okPart = false
		}
	}
	c.Decide(okPart, "C01.varuint", fn, "the value ranges of the four forms partition [0, 2^64)", c.P.Rel(fn.Pos()), ts)
	okForms := true
	var bad []string
	wantTag := map[int]int64{2: 0xFD, 4: 0xFE, 8: 0xFF}
	for _, r := range rows {
		if r.tag < 0 {
			if r.iv.hi >= 0xFD || r.width != 0 {
				okForms = false
				bad = append(bad, sprintf("direct form reaches 0x%X", r.iv.hi))
			}
			continue
		}
		if wantTag[r.width] != r.tag {
			okForms = false
			bad = append(bad, sprintf("tag 0x%X with %d payload bytes", r.tag, r.width))
		}
		if r.width < 8 && r.iv.hi >= uint64(1)<<(8*uint(r.width)) {
			okForms = false
			bad = append(bad, sprintf("0x%X does not fit %d bytes", r.iv.hi, r.width))
		}
		if r.iv.lo < 0xFD {
			okForms = false
		}
	}
	c.Decide(okForms, "C01.varuint", fn, "direct bytes stay below 0xFD; tags 0xFD/0xFE/0xFF carry 2/4/8 bytes without truncation", c.P.Rel(fn.Pos()), strings.Join(bad, "; "))
	return ts
}

func runC01(c *core.Ctx) {
	c.Floor("zero-copy reads examined for lost end-of-input (composite readers)", checkEofNotLost(c, "C01.eof-not-lost", funcsOfPkgs(c, "common")), 2)
	checkFullReads(c)
	checkReservedBytesWritten(c)
	checkStreamExactLength(c)
	// ---- writer tables
	sinkW := c.Fn("common", "ZeroCopySink.WriteVarUint")
	serW := c.Fn(pkSerialization, "WriteVarUint")
	var tabs []string
	for _, fn := range []*ssa.Function{sinkW, serW} {
		if fn != nil {
			tabs = append(tabs, checkWriterTable(c, fn))
		}
	}
	if len(tabs) == 2 {
		c.Decide(tabs[0] == tabs[1] && tabs[0] != "", "C01.varuint", "common.WriteVarUint ×2", "the zero-copy and the stream encoder have the same var-uint table", "", tabs[0]+"  vs  "+tabs[1])
	}
	// GetVarUintSize: same thresholds (size per interval)
	if fn := c.Fn(pkSerialization, "GetVarUintSize"); fn != nil {
		valP := fn.Params[0]
		type sz struct {
			iv   ivl
			size int64
		}
		var rows []sz
		for _, b := range fn.Blocks {
			for _, in := range b.Instrs {
				if r, ok := in.(*ssa.Return); ok {
					if k, okk := ir.ConstInt(r.Results[0]); okk {
						iv, _ := intervalAt(fn, valP, b)
						rows = append(rows, sz{iv, k})
					}
				}
			}
		}
		sort.Slice(rows, func(i, j int) bool { return rows[i].iv.lo < rows[j].iv.lo })
		want := []sz{{ivl{0, 0xFC}, 1}, {ivl{0xFD, 0xFFFF}, 3}, {ivl{0x10000, 0xFFFFFFFF}, 5}, {ivl{0x100000000, math.MaxUint64}, 9}}
		ok := len(rows) == len(want)
		for i := range rows {
			if ok && rows[i] != want[i] {
				ok = false
			}
		}
		c.Decide(ok, "C01.varuint", fn, "GetVarUintSize reports 1/3/5/9 on the encoders' value ranges", c.P.Rel(fn.Pos()), sprintf("%v", rows))
	}
	// sink size = 1 + width: BackUp(9 - size)
	if sinkW != nil {
		ok := false
		for _, ci := range ir.Calls(sinkW, func(ci ssa.CallInstruction) bool { o := ir.CalleeObj(ci); return o != nil && o.Name() == "BackUp" }) {
			if sub, isS := ci.Common().Args[1].(*ssa.BinOp); isS && sub.Op == token.SUB {
				if k, okk := ir.ConstInt(sub.X); okk && k == 9 {
					// size phi leaves: 1,3,5,9
					var ks []int64
					for _, l := range eng.PhiLeaves(nil, sub.Y) {
						if v, okv := ir.ConstInt(l); okv {
							ks = append(ks, v)
						}
					}
					sort.Slice(ks, func(i, j int) bool { return ks[i] < ks[j] })
					ok = sprintf("%v", ks) == "[1 3 5 9]"
				}
			}
		}
		c.Decide(ok, "C01.varuint", sinkW, "the sink keeps exactly 1/3/5/9 of the 9 reserved bytes", c.P.Rel(sinkW.Pos()), "")
	}
	// ---- reader tables
	for _, spec := range []struct{ pkg, fn string }{{"common", "ZeroCopySource.NextVarUint"}, {pkSerialization, "ReadVarUint"}} {
		fn := c.Fn(spec.pkg, spec.fn)
		if fn == nil {
			continue
		}
		// decision table by feasibility: whatever the dispatch is written as (switch, if-chain, `< 0xFD`
		// first, …), for a given first byte t every comparison of that byte with a constant is decided; the
		// payload reads that stay reachable must be exactly the one of the tag's width (none for t < 0xFD)
		got := map[int64]int{}
		var tagV ssa.Value
		for _, cd := range ir.Conds(fn) {
			if b, ok := cd.V.(*ssa.BinOp); ok {
				if k, okk := ir.ConstInt(b.Y); okk && k >= 0xFD && k <= 0xFF {
					tagV = b.X
				} else if k, okk := ir.ConstInt(b.X); okk && k >= 0xFD && k <= 0xFF {
					tagV = b.Y
				}
			}
		}
		okSmall := tagV != nil
		for _, t := range []int64{0x00, 0xFC, 0xFD, 0xFE, 0xFF} {
			if tagV == nil {
				break
			}
			r := ir.NewReach(fn)
			for _, cd := range ir.Conds(fn) {
				b, ok := cd.V.(*ssa.BinOp)
				if !ok {
					continue
				}
				var k int64
				var op token.Token
				if kk, okk := ir.ConstInt(b.Y); okk && sameTagByte(b.X, tagV) {
					k, op = kk, b.Op
				} else if kk, okk := ir.ConstInt(b.X); okk && sameTagByte(b.Y, tagV) {
					k, op = kk, relMirror(b.Op)
				} else {
					continue
				}
				var holds bool
				switch op {
				case token.EQL:
					holds = t == k
				case token.NEQ:
					holds = t != k
				case token.LSS:
					holds = t < k
				case token.LEQ:
					holds = t <= k
				case token.GTR:
					holds = t > k
				case token.GEQ:
					holds = t >= k
				default:
					continue
				}
				if holds {
					r.Cut[ir.Edge{From: cd.If.Block(), Idx: cd.FalseIdx()}] = true
				} else {
					r.Cut[ir.Edge{From: cd.If.Block(), Idx: cd.TrueIdx()}] = true
				}
			}
			r.Run(nil)
			widths := map[int]bool{}
			for _, bb := range fn.Blocks {
				for _, in := range bb.Instrs {
					ci, isC := in.(ssa.CallInstruction)
					if !isC || ir.CalleeObj(ci) == nil || !r.Instr(in) {
						continue
					}
					switch ir.CalleeObj(ci).Name() {
					case "NextUint16", "Uint16":
						widths[2] = true
					case "NextUint32", "Uint32":
						widths[4] = true
					case "NextUint64", "Uint64":
						widths[8] = true
					}
				}
			}
			if t < 0xFD {
				if len(widths) != 0 {
					okSmall = false
				}
				continue
			}
			if len(widths) == 1 {
				for w := range widths {
					got[t] = w
				}
			}
		}
		ok := okSmall && len(got) == 3 && got[0xFD] == 2 && got[0xFE] == 4 && got[0xFF] == 8
		c.Decide(ok, "C01.varuint", fn, "the decoder maps tags 0xFD/0xFE/0xFF to 2/4/8 payload bytes and any other byte to itself", c.P.Rel(fn.Pos()), sprintf("%v", got))
	}

	// ---- bounds discipline on ZeroCopySource
	pk := c.P.Pkgs[ir.PkgPath("common")]
	if pk != nil && pk.SSA != nil {
		allowed := map[string]bool{"NextBytes": true, "Skip": true, "NextByte": true, "OffBytes": true, "Bytes": true, "Len": true, "Size": true, "NewZeroCopySource": true}
		var bad []string
		n := 0
		for _, f := range allFuncs(pk.SSA) {
			for _, b := range f.Blocks {
				for _, in := range b.Instrs {
					fa, ok := in.(*ssa.FieldAddr)
					if !ok || fieldNameOf(fa) != "s" || !typeNamed(fa.X, "ZeroCopySource") {
						continue
					}
					n++
					if !allowed[f.Name()] && !onlyCalledFromAllowed(c, f, allowed) {
						bad = append(bad, ir.FuncName(f))
					}
				}
			}
		}
		c.Decide(len(bad) == 0 && n >= 6, "C01.bounds", "common.ZeroCopySource", "only NextBytes, Skip, NextByte, OffBytes, Bytes, Len, Size touch the buffer", "", sprintf("%d accesses; others: %v", n, bad))
	}
	sa := eng.Obj(c, "common", "SafeAdd")
	for _, name := range []string{"ZeroCopySource.NextBytes", "ZeroCopySource.Skip"} {
		fn := c.Fn("common", name)
		if fn == nil || sa == nil {
			continue
		}
		// the stores to self.off: value is a phi {SafeAdd sum on the (no overflow ∧ end <= len) edge, len otherwise}
		okEnd := false
		for _, st := range allFieldStores(fn, "off") {
			phi, ok := st.Val.(*ssa.Phi)
			if !ok {
				continue
			}
			nSum, nLen := 0, 0
			good := true
			for i, e := range phi.Edges {
				pred := phi.Block().Preds[i]
				if cl, idx := ir.CallOf(e); cl != nil && idx == 0 && ir.CalleeIs(cl, sa) {
					nSum++
					// the edge pred→phi must be the false edge of `end > m`, itself reached on the false edge of `overflow`
					iff, isIf := pred.Instrs[len(pred.Instrs)-1].(*ssa.If)
					if !isIf || pred.Succs[1] != phi.Block() {
						good = false
						continue
					}
					cmp, isB := iff.Cond.(*ssa.BinOp)
					if !isB || cmp.Op != token.GTR {
						good = false
						continue
					}
					if c2, i2 := ir.CallOf(cmp.X); c2 != cl || i2 != 0 {
						good = false
					}
					// pred is entered only when overflow is false
					if len(pred.Preds) != 1 {
						good = false
						continue
					}
					up := pred.Preds[0]
					uif, isU := up.Instrs[len(up.Instrs)-1].(*ssa.If)
					if !isU || up.Succs[1] != pred {
						good = false
						continue
					}
					if c3, i3 := ir.CallOf(uif.Cond); c3 != cl || i3 != 1 {
						good = false
					}
				} else if isLenOfField("s", nil)(e) {
					nLen++
				} else {
					good = false
				}
			}
			if good && nSum == 1 && nLen >= 1 {
				okEnd = true
			}
		}
		// shape-independent form of the same clause (also when the computation lives in a helper)
		c.Decide(okEnd || endPositionGuarded(c, fn, sa), "C01.bounds", fn, "the new position is the SafeAdd sum only when it neither overflowed nor exceeds len, and len otherwise", c.P.Rel(fn.Pos()), "")
	}
	if fn := c.Fn("common", "ZeroCopySource.NextByte"); fn != nil {
		var reads []ir.Sink
		for _, b := range fn.Blocks {
			for _, in := range b.Instrs {
				if ia, ok := in.(*ssa.IndexAddr); ok && isFieldNamed(ia.X, "s") {
					reads = append(reads, ir.Sink{Instr: ia, Note: "s[off]"})
				}
			}
		}
		c.Floor("indexed reads in NextByte", len(reads), 1)
		eng.Dominates(c, "C01.bounds", fn, relGuard("off < len(s)", isFieldOf("off", nil), isLenOfField("s", nil), token.LSS), reads, "byte read", nil)
	}
	if fn := c.Fn("common", "SafeAdd"); fn != nil {
		ok := false
		for _, b := range fn.Blocks {
			for _, in := range b.Instrs {
				r, isR := in.(*ssa.Return)
				if !isR || len(r.Results) != 2 {
					continue
				}
				sum, isS := r.Results[0].(*ssa.BinOp)
				ov, isO := r.Results[1].(*ssa.BinOp)
				if !isS || !isO || sum.Op != token.ADD {
					continue
				}
				x, y := fn.Params[0], fn.Params[1]
				// y > MAX - x   (or x > MAX - y, or sum < x)
				if ov.Op == token.GTR {
					if sub, isSub := ov.Y.(*ssa.BinOp); isSub && sub.Op == token.SUB {
						if kc, isK := sub.X.(*ssa.Const); isK && kc.Uint64() == math.MaxUint64 {
							if (ov.X == ssa.Value(y) && sub.Y == ssa.Value(x)) || (ov.X == ssa.Value(x) && sub.Y == ssa.Value(y)) {
								ok = true
							}
						}
					}
				}
				if ov.Op == token.LSS && ov.X == ssa.Value(sum) && (ov.Y == ssa.Value(x) || ov.Y == ssa.Value(y)) {
					ok = true
				}
			}
		}
		c.Decide(ok, "C01.bounds", fn, "SafeAdd reports overflow exactly when y > MAX_UINT64 − x", c.P.Rel(fn.Pos()), "")
	}
	// fixed-width readers decode only on !eof
	widths := map[string]int64{"NextUint16": 2, "NextUint32": 4, "NextUint64": 8, "NextAddress": 20, "NextHash": 32}
	dec := map[string]string{"NextUint16": "Uint16", "NextUint32": "Uint32", "NextUint64": "Uint64"}
	var names []string
	for n := range widths {
		names = append(names, n)
	}
	sort.Strings(names)
	for _, n := range names {
		fn := c.Fn("common", "ZeroCopySource."+n)
		if fn == nil {
			continue
		}
		var nb *ssa.Call
		for _, ci := range ir.Calls(fn, func(ci ssa.CallInstruction) bool { o := ir.CalleeObj(ci); return o != nil && o.Name() == "NextBytes" }) {
			nb, _ = ci.(*ssa.Call)
		}
		if nb == nil {
			c.Broken("C01.bounds", fn, "NextBytes call", c.P.Rel(fn.Pos()), "not found")
			continue
		}
		k, okk := ir.ConstInt(nb.Common().Args[1])
		c.Decide(okk && k == widths[n], "C01.pairing", fn, sprintf("%s requests exactly %d bytes", n, widths[n]), c.P.Rel(nb.Pos()), sprintf("%d", k))
		var uses []ir.Sink
		for _, b := range fn.Blocks {
			for _, in := range b.Instrs {
				ci, ok := in.(ssa.CallInstruction)
				if !ok {
					continue
				}
				if bi, isB := ci.Common().Value.(*ssa.Builtin); isB && bi.Name() == "copy" {
					uses = append(uses, ir.Sink{Instr: in, Note: "copy from the bytes read"})
				}
				if o := ir.CalleeObj(ci); o != nil && o.Pkg() != nil && o.Pkg().Path() == "encoding/binary" {
					uses = append(uses, ir.Sink{Instr: in, Note: "decode of the bytes read"})
					if want := dec[n]; want != "" {
						little := len(ci.Common().Args) > 0 && strings.Contains(ci.Common().Args[0].Type().String(), "littleEndian")
						c.Decide(o.Name() == want && little, "C01.pairing", fn, n+" decodes with binary.LittleEndian."+want, c.P.Rel(in.Pos()), ci.Common().Args[0].Type().String()+"."+o.Name())
					}
				}
			}
		}
		c.Floor("uses of the bytes read in "+n, len(uses), 1)
		eng.Dominates(c, "C01.bounds", fn, eng.NamedGuard{Name: "NextBytes eof == false", G: func(cd ir.Cond) (bool, bool) {
			ex, ok := ir.Strip(cd.V).(*ssa.Extract)
			if ok && ex.Tuple == ssa.Value(nb) && ex.Index == 1 {
				return true, false
			}
			// eof kept in a named result cell: load of the cell stored from the extract
			if ld, isLd := cd.V.(*ssa.UnOp); isLd {
				if al, isAl := ld.X.(*ssa.Alloc); isAl && al.Referrers() != nil {
					for _, r := range *al.Referrers() {
						if st, isSt := r.(*ssa.Store); isSt {
							if ex2, isEx := st.Val.(*ssa.Extract); isEx && ex2.Tuple == ssa.Value(nb) && ex2.Index == 1 {
								return true, false
							}
						}
					}
				}
			}
			return false, false
		}}, uses, "use of the bytes read", nil)
	}
	// writers: PutUintN of matching N
	for n, want := range map[string]string{"WriteUint16": "PutUint16", "WriteUint32": "PutUint32", "WriteUint64": "PutUint64"} {
		fn := c.Fn("common", "ZeroCopySink."+n)
		if fn == nil {
			continue
		}
		ok := false
		for _, ci := range ir.Calls(fn, func(ci ssa.CallInstruction) bool {
			o := ir.CalleeObj(ci)
			return o != nil && o.Pkg() != nil && o.Pkg().Path() == "encoding/binary"
		}) {
			ok = ir.CalleeObj(ci).Name() == want && strings.Contains(ci.Common().Args[0].Type().String(), "littleEndian")
		}
		c.Decide(ok, "C01.pairing", fn, n+" encodes with binary.LittleEndian."+want, c.P.Rel(fn.Pos()), "")
	}
	// NextVarBytes: body read only after the length was read
	if fn := c.Fn("common", "ZeroCopySource.NextVarBytes"); fn != nil {
		var nv *ssa.Call
		for _, ci := range ir.Calls(fn, func(ci ssa.CallInstruction) bool { o := ir.CalleeObj(ci); return o != nil && o.Name() == "NextVarUint" }) {
			nv, _ = ci.(*ssa.Call)
		}
		bodies := ir.Calls(fn, func(ci ssa.CallInstruction) bool { o := ir.CalleeObj(ci); return o != nil && o.Name() == "NextBytes" })
		if nv != nil && len(bodies) == 1 {
			eng.Dominates(c, "C01.bounds", fn, eng.NamedGuard{Name: "NextVarUint eof == false", G: func(cd ir.Cond) (bool, bool) {
				ex, ok := ir.Strip(cd.V).(*ssa.Extract)
				if ok && ex.Tuple == ssa.Value(nv) && ex.Index == 1 {
					return true, false
				}
				return false, false
			}}, ir.CallSinks(bodies, "body read"), "read of the body", nil)
			c.Decide(func() bool {
				ex, ok := bodies[0].Common().Args[1].(*ssa.Extract)
				return ok && ex.Tuple == ssa.Value(nv) && ex.Index == 0
			}(), "C01.bounds", fn, "the body length is the decoded prefix", c.P.Rel(fn.Pos()), "")
		} else {
			c.Broken("C01.bounds", fn, "length prefix and body reads", c.P.Rel(fn.Pos()), "not found")
		}
	}
	// NextBool
	if fn := c.Fn("common", "ZeroCopySource.NextBool"); fn != nil {
		// eof result is forced true unless val ∈ {0,1}: the store/phi of constant true for eof lies on the edge val != 0 ∧ val != 1
		var valV ssa.Value
		for _, ci := range ir.Calls(fn, func(ci ssa.CallInstruction) bool { o := ir.CalleeObj(ci); return o != nil && o.Name() == "NextByte" }) {
			if v, ok := ci.(ssa.Value); ok && v.Referrers() != nil {
				for _, r := range *v.Referrers() {
					if ex, isEx := r.(*ssa.Extract); isEx && ex.Index == 0 {
						valV = ex
					}
				}
			}
		}
		okB := false
		if valV != nil {
			for _, b := range fn.Blocks {
				iv, _ := intervalAt(fn, valV, b)
				// a block where val is known to be >= 2 (or != 0 and != 1) must set eof = true
				if iv.lo >= 2 || blockExcludes01(fn, valV, b) {
					for _, in := range b.Instrs {
						if st, isSt := in.(*ssa.Store); isSt {
							if k, okk := ir.ConstBool(st.Val); okk && k {
								okB = true
							}
						}
					}
					// or via phi: successor phi takes constant true from this block
					for _, s := range b.Succs {
						for _, in := range s.Instrs {
							if p, isP := in.(*ssa.Phi); isP {
								for i, e := range p.Edges {
									if s.Preds[i] == b {
										if k, okk := ir.ConstBool(e); okk && k {
											okB = true
										}
									}
								}
							}
						}
					}
				}
			}
		}
		c.Decide(okB, "C01.bool", fn, "a byte other than 0 or 1 is reported as an error", c.P.Rel(fn.Pos()), "")
	}
}

// blockExcludes01: blk is dominated by the false edges of v == 0 and v == 1.
func blockExcludes01(fn *ssa.Function, v ssa.Value, blk *ssa.BasicBlock) bool {
	ex := map[int64]bool{}
	for _, cd := range ir.Conds(fn) {
		b, ok := cd.V.(*ssa.BinOp)
		if !ok || b.X != v {
			continue
		}
		k, okk := ir.ConstInt(b.Y)
		if !okk {
			continue
		}
		from := cd.If.Block()
		t, f := from.Succs[0], from.Succs[1]
		onT := len(t.Preds) == 1 && (t == blk || t.Dominates(blk))
		onF := len(f.Preds) == 1 && (f == blk || f.Dominates(blk))
		if onT == onF {
			continue
		}
		if (b.Op == token.EQL && onF) || (b.Op == token.NEQ && onT) {
			ex[k] = true
		}
	}
	return ex[0] && ex[1]
}

// sameTagByte: the same SSA value, or two loads of the same array element (buf[0] read again per comparison).
func sameTagByte(a, b ssa.Value) bool {
	if a == b || sameValue(a, b) {
		return true
	}
	la, ok1 := a.(*ssa.UnOp)
	lb, ok2 := b.(*ssa.UnOp)
	if !ok1 || !ok2 {
		return false
	}
	ia, ok1 := la.X.(*ssa.IndexAddr)
	ib, ok2 := lb.X.(*ssa.IndexAddr)
	if !ok1 || !ok2 || ia.X != ib.X {
		return false
	}
	ka, oka := ir.ConstInt(ia.Index)
	kb, okb := ir.ConstInt(ib.Index)
	return oka && okb && ka == kb
}
