package rules

import (
	"go/token"
	"strings"

	"golang.org/x/tools/go/ssa"

	"polyverif/core"
	"polyverif/eng"
	"polyverif/ir"
)

// C02 — ledger objects encode faithfully with signature-independent identity.

func init() {
	core.Register(&core.Check{
		ID: "C02", Level: "other", Title: "Ledger objects encode faithfully with signature-independent identity",
		Technique: "codec schema agreement (ordered wire-kind lists of writer/reader and of the zero-copy / stream variants), field coverage of the hashed encodings, value lineage of the identity hash, guard dominance, wire-bounded allocation rule",
		Explain:   "Decided statically. (Schema) for Transaction, Sig, Header, Block and the payload types the writer and the reader perform the same ordered list of wire operations (helpers on the same receiver inlined); Header's unsigned encoder is the prefix of its signed encoder. (Identity) Header.Hash hashes exactly the bytes of serializationUnsigned, whose field set excludes Bookkeepers and SigData and covers every other persistent field; Transaction.Deserialization sets tx.hash = sha256(sha256(w)) where w is the byte window re-read over exactly the span consumed by DeserializationUnsigned (position taken before any signature is read), and the hash field is written nowhere else. (Refusals) TransactionFromRawBytes succeeds only after len(raw) <= MAX_TX_SIZE and Transaction.Deserialization only after lenAll <= MAX_TX_SIZE and the signature count <= TX_MAX_SIG_SIZE; in Block.Deserialization a transaction is appended only on the miss edge of the duplicate-hash mask and nil is returned only after TransactionsRoot == ComputeMerkleRoot(hashes) with hashes collected in loop order from the decoded transactions. (Malformed input) no decoder of core/types or core/payload sizes an allocation by an unbounded wire integer. NOT decided: value equality after a round trip, panics outside allocation sizes (index arithmetic), third-party key decoding.",
		Run:       runC02,
	})
}

func inC02Pkg(rel string) bool { return rel == "core/types" || rel == "core/payload" }

func runC02(c *core.Ctx) {
	c.Floor("zero-copy reads examined for lost end-of-input (ledger objects)", checkEofNotLost(c, "C02.eof-not-lost", funcsOfPkgs(c, "core/types", "core/payload")), 20)
	checkEncoderCounts(c, "C02.count-matches-elements", inC02Pkg, 1, 1)
	n := checkCodecPairs(c, "C02.schema", func(p codecPair) bool { return inC02Pkg(p.Pkg) })
	c.Floor("codec pairs in core/types and core/payload", n, 4)
	decs := decoderFuncs(c, inC02Pkg)
	nMakes, nWire := checkWireAllocs(c, "C02.bounded-alloc", decs)
	c.Note("decoders examined: %d functions, %d make() sites, %d sized by a wire integer", len(decs), nMakes, nWire)
	c.Floor("decoder functions in core/types and core/payload", len(decs), 8)

	// ---- header identity
	hh := c.Fn(pkTypes, "Header.Hash")
	su := c.Fn(pkTypes, "Header.serializationUnsigned")
	if hh != nil && su != nil {
		// directly, or through a same-type accessor that does nothing else with the header (GetMessage)
		calls := ir.Calls(hh, func(ci ssa.CallInstruction) bool {
			h := ci.Common().StaticCallee()
			if h == su {
				return true
			}
			if h == nil || h == hh || h.Pkg != hh.Pkg || len(h.Blocks) == 0 || recvTypeName(h) != "Header" {
				return false
			}
			return len(ir.Calls(h, func(x ssa.CallInstruction) bool { return x.Common().StaticCallee() == su })) == 1
		})
		c.Decide(len(calls) == 1, "C02.header-identity", hh, "Header.Hash encodes the header with serializationUnsigned", c.P.Rel(hh.Pos()), sprintf("%d call(s)", len(calls)))
		ops := eng.FlatCodec(su)
		cov := map[string]bool{}
		for _, o := range ops {
			cov[o.Field] = true
		}
		var bad []string
		if cov["Bookkeepers"] || cov["SigData"] {
			bad = append(bad, "the unsigned encoding includes signature material")
		}
		if ho, err := c.P.Obj(pkTypes, "Header"); err == nil {
			st := structOf(ho.Type())
			for i := 0; st != nil && i < st.NumFields(); i++ {
				f := st.Field(i).Name()
				if f == "Bookkeepers" || f == "SigData" || f == "hash" {
					continue
				}
				if !cov[f] {
					bad = append(bad, "field "+f+" is not part of the identity")
				}
			}
		}
		c.Decide(len(bad) == 0 && len(ops) >= 8, "C02.header-identity", su, "the hashed encoding covers every header field except Bookkeepers, SigData and the cache", c.P.Rel(su.Pos()), eng.CodecSeqString(ops)+" "+strings.Join(bad, "; "))
		checkFieldWriters(c, "C02.header-identity", pkTypes, "Header", "hash", map[string]bool{"(*core/types.Header).Hash": true})
	}

	// ---- transaction identity
	if fn := c.Fn(pkTypes, "Transaction.Deserialization"); fn != nil {
		du := c.Fn(pkTypes, "Transaction.DeserializationUnsigned")
		var hashStore *ssa.Store
		for _, st := range allFieldStores(fn, "hash") {
			hashStore = st
		}
		if hashStore == nil || du == nil {
			c.Broken("C02.tx-identity", fn, "store to tx.hash", c.P.Rel(fn.Pos()), "not found")
		} else {
			// value: Sum256(temp[:]) with temp = Sum256(window)
			window, okDouble := doubleShaWindow(hashStore.Val, 0)
			c.Decide(okDouble, "C02.tx-identity", fn, "tx.hash = sha256(sha256(window))", c.P.Rel(hashStore.Pos()), "")
			// window = NextBytes(pos - pstart) after BackUp(pos - pstart); pstart/pos are source.Pos() before/after DeserializationUnsigned
			okWin := false
			var lenV ssa.Value
			if ex, ok := ir.Strip(window).(*ssa.Extract); ok && ex.Index == 0 {
				if nb, isC := ex.Tuple.(*ssa.Call); isC && ir.CalleeObj(nb) != nil && ir.CalleeObj(nb).Name() == "NextBytes" {
					lenV = nb.Common().Args[1]
					// preceded by BackUp(lenV)
					for _, ci := range ir.Calls(fn, func(ci ssa.CallInstruction) bool { o := ir.CalleeObj(ci); return o != nil && o.Name() == "BackUp" }) {
						if ci.Common().Args[1] == lenV && ci.Block() == nb.Block() {
							okWin = true
						}
					}
				}
			}
			okSpan := false
			var duCall *ssa.Call
			for _, ci := range ir.Calls(fn, func(ci ssa.CallInstruction) bool { return ci.Common().StaticCallee() == du }) {
				duCall, _ = ci.(*ssa.Call)
			}
			if sub, ok := lenV.(*ssa.BinOp); ok && sub.Op == token.SUB && duCall != nil {
				p1, _ := ir.CallOf(sub.X)
				p0, _ := ir.CallOf(sub.Y)
				isPos := func(cl *ssa.Call) bool {
					return cl != nil && ir.CalleeObj(cl) != nil && ir.CalleeObj(cl).Name() == "Pos"
				}
				if isPos(p0) && isPos(p1) {
					// p0 before the unsigned decode, p1 after it and before any signature read
					r0 := ir.NewReach(fn).Run(p0)
					r1 := ir.NewReach(fn).Run(duCall)
					okSpan = r0.Instr(duCall) && r1.Instr(p1)
					for _, ci := range ir.Calls(fn, func(ci ssa.CallInstruction) bool {
						o := ir.CalleeObj(ci)
						return o != nil && (o.Name() == "NextVarUint" || (o.Name() == "Deserialize" && recvNamedCI(ci, "Sig")))
					}) {
						rs := ir.NewReach(fn).Run(ci)
						if rs.Instr(p1) {
							okSpan = false
						}
					}
				}
			}
			c.Decide(okWin && okSpan, "C02.tx-identity", fn, "the window is exactly the bytes consumed by DeserializationUnsigned, delimited before any signature is read", c.P.Rel(hashStore.Pos()), sprintf("window %v span %v", okWin, okSpan))
		}
		checkFieldWriters(c, "C02.tx-identity", pkTypes, "Transaction", "hash", map[string]bool{"(*core/types.Transaction).Deserialization": true})
		// refusals
		succ := ir.SuccessSinks(fn)
		maxTx, err1 := c.P.Const(pkTypes, "MAX_TX_SIZE")
		maxSig, err2 := c.P.Const("common/constants", "TX_MAX_SIG_SIZE")
		if err1 == nil && err2 == nil {
			kTx, _ := constInt64Val(maxTx)
			kSig, _ := constInt64Val(maxSig)
			// lenAll = (position after the LAST read, signatures included) − (start position)
			sigReads := ir.Calls(fn, func(ci ssa.CallInstruction) bool {
				o := ir.CalleeObj(ci)
				return o != nil && (o.Name() == "NextVarUint" || (o.Name() == "Deserialize" && recvNamedCI(ci, "Sig")) || o.Name() == "DeserializationUnsigned")
			})
			eng.Dominates(c, "C02.refusals", fn, relGuard("lenAll <= MAX_TX_SIZE (whole encoding, signatures included)", func(v ssa.Value) bool {
				b, ok := ir.Strip(v).(*ssa.BinOp)
				if !ok || b.Op != token.SUB {
					return false
				}
				pend, _ := ir.CallOf(b.X)
				pstart, _ := ir.CallOf(b.Y)
				if pend == nil || pstart == nil || ir.CalleeObj(pend) == nil || ir.CalleeObj(pend).Name() != "Pos" || ir.CalleeObj(pstart) == nil || ir.CalleeObj(pstart).Name() != "Pos" {
					return false
				}
				// no field of the transaction is read after the end position was taken …
				r := ir.NewReach(fn).Run(pend)
				for _, sr := range sigReads {
					if r.Instr(sr) {
						return false
					}
				}
				// … and every read follows the start position
				r0 := ir.NewReach(fn).Run(nil)
				r0.Barrier[pstart] = true
				r0 = ir.NewReach(fn)
				r0.Barrier[pstart] = true
				r0.Run(nil)
				for _, sr := range sigReads {
					if r0.Instr(sr) {
						return false
					}
				}
				return true
			}, isConstInt(kTx), token.LEQ), succ, "nil return", nil)
			eng.Dominates(c, "C02.refusals", fn, relGuard("signature count <= TX_MAX_SIG_SIZE", func(v ssa.Value) bool {
				r, _ := wireCount(v, 0)
				return r != nil
			}, isConstInt(kSig), token.LEQ), succ, "nil return", nil)
			if fr := c.Fn(pkTypes, "TransactionFromRawBytes"); fr != nil {
				eng.Dominates(c, "C02.refusals", fr, relGuard("len(raw) <= MAX_TX_SIZE", isLenOfParam(fr.Params[0]), isConstInt(kTx), token.LEQ), nonNilParamSuccess(fr), "transaction returned", nil)
			}
		} else {
			c.Broken("C02.refusals", fn, "MAX_TX_SIZE / TX_MAX_SIG_SIZE", "", "constants not found")
		}
	}

	// ---- block
	if fn := c.Fn(pkTypes, "Block.Deserialization"); fn != nil {
		succ := ir.SuccessSinks(fn)
		cmr := eng.Obj(c, "common", "ComputeMerkleRoot")
		// transactions appended
		var appends []ssa.Instruction
		var hashAppends []*ssa.Call
		for _, b := range fn.Blocks {
			for _, in := range b.Instrs {
				cl, ok := in.(*ssa.Call)
				if !ok {
					continue
				}
				bi, ok := cl.Common().Value.(*ssa.Builtin)
				if !ok || bi.Name() != "append" {
					continue
				}
				el := eng.VariadicElems(cl.Common().Args[1])
				if len(el) != 1 {
					continue
				}
				if h := calleeNamed(el[0], "Hash"); h != nil {
					hashAppends = append(hashAppends, cl)
				} else {
					appends = append(appends, cl)
				}
			}
		}
		c.Floor("transaction appends in Block.Deserialization", len(appends), 1)
		c.Floor("hash appends in Block.Deserialization", len(hashAppends), 1)
		eng.Dominates(c, "C02.block", fn, eng.NamedGuard{Name: "duplicate mask miss (mask[txhash] == false)", G: func(cd ir.Cond) (bool, bool) {
			v := cd.V
			want := false
			if u, ok := v.(*ssa.UnOp); ok && u.Op == token.NOT {
				v, want = u.X, true
			}
			if ex, ok := v.(*ssa.Extract); ok {
				v = ex.Tuple
			}
			lk, ok := v.(*ssa.Lookup)
			if !ok {
				return false, false
			}
			if calleeNamed(lk.Index, "Hash") == nil {
				return false, false
			}
			return true, want
		}}, instrSinks(appends, "transaction appended"), "transaction appended", nil)
		if cmr != nil {
			eng.Dominates(c, "C02.block", fn, relGuard("Header.TransactionsRoot == ComputeMerkleRoot(hashes)", isFieldOf("TransactionsRoot", nil), func(v ssa.Value) bool {
				cl, _ := ir.CallOf(v)
				return cl != nil && ir.CalleeIs(cl, cmr)
			}, token.EQL), succ, "nil return", nil)
			// the argument is the list collected from the decoded transactions
			okArg := false
			fromAppends := func(v ssa.Value) bool {
				for _, l := range eng.PhiLeaves(nil, v) {
					for _, ha := range hashAppends {
						if l == ssa.Value(ha) {
							return true
						}
					}
				}
				return false
			}
			for _, ci := range ir.CallsTo(fn, cmr) {
				if fromAppends(ci.Common().Args[0]) {
					okArg = true
				}
			}
			// or the comparison lives in a same-package helper that is handed the collected list
			for _, ci := range ir.Calls(fn, nil) {
				h := ci.Common().StaticCallee()
				if h == nil || h == fn || h.Pkg != fn.Pkg || len(h.Blocks) == 0 {
					continue
				}
				for _, hc := range ir.CallsTo(h, cmr) {
					if p, isP := hc.Common().Args[0].(*ssa.Parameter); isP {
						for i, hp := range h.Params {
							if hp == p && i < len(ci.Common().Args) && fromAppends(ci.Common().Args[i]) {
								okArg = true
							}
						}
					}
				}
			}
			c.Decide(okArg, "C02.block", fn, "the root is computed over the hashes of the decoded transactions in order", c.P.Rel(fn.Pos()), "")
		}
	}
}
