package rules

import "polyverif/core"

// accessorPairs runs checkAccessorKeyPairs over pkgs and floors the number of
// reader/writer pairs compared.
func accessorPairs(c *core.Ctx, rule string, floor int, pkgs ...string) {
	total := 0
	for _, p := range pkgs {
		n := checkAccessorKeyPairs(c, rule, p, nil)
		c.Note(sprintf("%s: %d reader/writer pair(s) compared in %s", rule, n, p))
		total += n
	}
	c.Floor("reader/writer accessor pairs ("+rule+")", total, floor)
}
