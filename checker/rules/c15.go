package rules

import (
	"go/types"

	"golang.org/x/tools/go/ssa"

	"polyverif/core"
	"polyverif/eng"
	"polyverif/ir"
)

// C15 — transaction execution is atomic.

func init() {
	core.Register(&core.Check{
		ID: "C15", Level: "other", Title: "Transaction execution is atomic",
		Explain: "Guard dominance + who-may-call: in StateStore.HandleInvokeTransaction the CacheDB.Commit call, the store of CONTRACT_STATE_SUCCESS, the append of the service's notifications and every return of a non-nil cross-hash list are dominated by the pass edge of NativeService.Invoke err==nil; in executeBlock every handleTransaction call is preceded by cache.Reset() on every path (from entry and around the loop); handleTransaction returns the notify/crossHashes only when the overlay reports no error; CacheDB.Commit has exactly one caller; OverlayDB.Put/Delete are called only from CacheDB.Commit; no function reachable (VTA call graph) from a registered native handler calls CacheDB.Commit, CacheDB.Reset, OverlayDB.Put/Delete/CommitTo or StateStore.Batch*/CommitTo; in NativeService.Invoke the merge of the callee's notifications and cross hashes into the saved lists is dominated by handler err==nil; NativeCall (contract-to-contract call) has zero call sites (if one appears its error must be propagated). NOT decided: event-store side ordering (SaveNotify).",
		Run:     runC15,
	})
}

func fieldStores(fn *ssa.Function, typ types.Type, field string) []ssa.Instruction {
	var out []ssa.Instruction
	for _, f := range ir.WithClosures(fn) {
		for _, b := range f.Blocks {
			for _, in := range b.Instrs {
				st, ok := in.(*ssa.Store)
				if !ok {
					continue
				}
				fa, ok := st.Addr.(*ssa.FieldAddr)
				if !ok {
					continue
				}
				pt, ok := fa.X.Type().Underlying().(*types.Pointer)
				if !ok {
					continue
				}
				s, ok := pt.Elem().Underlying().(*types.Struct)
				if !ok || s.Field(fa.Field).Name() != field {
					continue
				}
				if typ != nil && !types.Identical(pt.Elem(), typ) {
					continue
				}
				out = append(out, st)
			}
		}
	}
	return out
}

func instrSinks(ins []ssa.Instruction, note string) []ir.Sink {
	var out []ir.Sink
	for _, in := range ins {
		out = append(out, ir.Sink{Instr: in, Note: note})
	}
	return out
}

func runC15(c *core.Ctx) {
	checkCalleeListsFresh(c)
	hit := c.Fn(pkLedger, "StateStore.HandleInvokeTransaction")
	invoke := eng.Obj(c, pkNative, "NativeService.Invoke")
	commit := eng.Obj(c, pkStorage, "CacheDB.Commit")
	reset := eng.Obj(c, pkStorage, "CacheDB.Reset")
	getNotify := eng.Obj(c, pkNative, "NativeService.GetNotify")
	if hit == nil || invoke == nil || commit == nil || reset == nil || getNotify == nil {
		return
	}
	g := eng.ErrNilOf("NativeService.Invoke", invoke)
	// directly, or through a private helper that finishes the successful transaction
	commits := ir.CallsThrough(hit, func(ci ssa.CallInstruction) bool { return ir.CalleeIs(ci, commit) }, 2)
	c.Floor("CacheDB.Commit calls in HandleInvokeTransaction", len(commits), 1)
	eng.Dominates(c, "C15.success≺commit", hit, g, ir.CallSinks(commits, "CacheDB.Commit"), "CacheDB.Commit", nil)
	enObj, err := c.P.Obj("native/event", "ExecuteNotify")
	if err != nil {
		c.Broken("anchor", "", "event.ExecuteNotify", "", err.Error())
		return
	}
	stState := fieldStores(hit, enObj.Type(), "State")
	stNotify := fieldStores(hit, enObj.Type(), "Notify")
	siteState, siteNotify := stState, stNotify
	if len(stState)+len(stNotify) == 0 {
		// the success bookkeeping may sit in a same-package helper: the stores are judged there,
		// the helper call is the site that must be dominated in HandleInvokeTransaction
		hosts, releaseHosts := hostsWithHelpers(hit)
		defer releaseHosts()
		for _, h := range hosts[1:] {
			s1, s2 := fieldStores(h, enObj.Type(), "State"), fieldStores(h, enObj.Type(), "Notify")
			if len(s1)+len(s2) == 0 {
				continue
			}
			stState, stNotify = append(stState, s1...), append(stNotify, s2...)
			for _, in := range append(append([]ssa.Instruction{}, s1...), s2...) {
				if cl := callIn(hit, in); cl != nil {
					if len(s1) > 0 {
						siteState = append(siteState, cl)
					}
					if len(s2) > 0 {
						siteNotify = append(siteNotify, cl)
					}
					break
				}
			}
		}
	}
	c.Floor("stores to notify.State/Notify", len(stState)+len(stNotify), 2)
	eng.Dominates(c, "C15.success≺events", hit, g, instrSinks(siteState, "notify.State = …"), "store notify.State", nil)
	eng.Dominates(c, "C15.success≺events", hit, g, instrSinks(siteNotify, "notify.Notify = append(…)"), "store notify.Notify", nil)
	// the only State store writes CONTRACT_STATE_SUCCESS
	for _, in := range stState {
		k, ok := ir.ConstInt(in.(*ssa.Store).Val)
		want, e := c.P.Const("native/event", "CONTRACT_STATE_SUCCESS")
		wk := int64(-1)
		if e == nil {
			wk, _ = ir.ConstInt(ssa.NewConst(want, types.Typ[types.Int]))
		}
		c.Decide(ok && k == wk, "C15.success≺events", hit, "notify.State store is CONTRACT_STATE_SUCCESS", c.P.Rel(in.Pos()), "")
	}
	eng.Dominates(c, "C15.success≺crosshashes", hit, g, nonNilParamSuccess(hit), "return of non-nil cross hashes", nil)

	// executeBlock: Reset before every handleTransaction
	checkResetBeforeTx(c, "C15.reset≺tx")
	checkLayerReads(c, "C15.committed-delete-visible", "")
	// handleTransaction: results only when overlay.Error()==nil
	if htf := c.Fn(pkLedger, "LedgerStoreImp.handleTransaction"); htf != nil {
		oe := eng.Obj(c, pkOverlay, "OverlayDB.Error")
		if oe != nil {
			gg := eng.NamedGuard{Name: "overlay.Error()==nil", G: func(cd ir.Cond) (bool, bool) {
				x, neq, ok := ir.NilCmp(cd.V)
				if !ok {
					return false, false
				}
				cl, _ := ir.CallOf(x)
				if cl == nil || !ir.CalleeIs(cl, oe) {
					return false, false
				}
				return true, !neq
			}}
			eng.Dominates(c, "C15.overlay-error-fails-block", htf, gg, ir.SuccessSinks(htf), "nil-error return", nil)
		}
	}

	// who may call
	cg := c.P.CG()
	if f := c.Fn(pkStorage, "CacheDB.Commit"); f != nil {
		callers := c.P.EffectiveCallers(f, func(y *ssa.Function) bool { return y == hit })
		names := []string{}
		for _, x := range callers {
			names = append(names, ir.FuncName(x))
		}
		c.Decide(len(callers) == 1 && callers[0] == hit, "C15.who-may-commit", f, "CacheDB.Commit called only from HandleInvokeTransaction", c.P.Rel(f.Pos()), sprintf("callers %v", names))
		for _, n := range []string{"OverlayDB.Put", "OverlayDB.Delete"} {
			of := c.Fn(pkOverlay, n)
			if of == nil {
				continue
			}
			bad := []string{}
			// private helpers (a closure, a method value, an extracted per-entry method) are transparent
			for _, x := range c.P.EffectiveCallers(of, func(y *ssa.Function) bool { return y == f }) {
				root := x
				for root.Parent() != nil {
					root = root.Parent()
				}
				if root != f {
					bad = append(bad, ir.FuncName(x))
				}
			}
			c.Decide(len(bad) == 0, "C15.who-may-commit", of, n+" called only from CacheDB.Commit", c.P.Rel(of.Pos()), sprintf("other callers %v", bad))
		}
	}
	// nothing reachable from handlers commits
	var roots []*ssa.Function
	for _, h := range Handlers(c) {
		roots = append(roots, h.Fn)
	}
	c.Floor("registered native handlers", len(roots), 39)
	reach := cg.Reachable(roots, nil)
	forbidden := [][2]string{
		{pkStorage, "CacheDB.Commit"}, {pkStorage, "CacheDB.Reset"},
		{pkOverlay, "OverlayDB.Put"}, {pkOverlay, "OverlayDB.Delete"}, {pkOverlay, "OverlayDB.CommitTo"},
		{pkLedger, "StateStore.BatchPutRawKeyVal"}, {pkLedger, "StateStore.BatchDeleteRawKey"}, {pkLedger, "StateStore.CommitTo"}, {pkLedger, "StateStore.NewBatch"},
	}
	for _, fb := range forbidden {
		f := c.Fn(fb[0], fb[1])
		if f == nil {
			continue
		}
		_, hitf := reach[f]
		det := ""
		if hitf {
			det = sprintf("call path %v", ir.PathTo(reach, f))
		}
		c.Decide(!hitf, "C15.contracts-cannot-commit", f, fb[1]+" not reachable from any registered native handler", c.P.Rel(f.Pos()), det)
	}
	c.Note("reachable from %d handlers: %d functions", len(roots), len(reach))

	// NativeService.Invoke: merges dominated by handler err==nil
	if inv := c.Fn(pkNative, "NativeService.Invoke"); inv != nil {
		nsObj, _ := c.P.Obj(pkNative, "NativeService")
		isHandlerCall := func(cl *ssa.Call) bool {
			if cl.Common().IsInvoke() || cl.Common().StaticCallee() != nil {
				return false
			}
			nt, ok := cl.Common().Value.Type().(*types.Named)
			return ok && nt.Obj().Name() == "Handler"
		}
		hg := eng.NamedGuard{Name: "handler(this) err==nil", G: ir.ErrNil(isHandlerCall)}
		var merges []ssa.Instruction
		for _, fld := range []string{"notifications", "crossHashes"} {
			for _, st := range fieldStores(inv, nsObj.Type(), fld) {
				if cl, _ := ir.CallOf(st.(*ssa.Store).Val); cl != nil {
					if b, ok := cl.Common().Value.(*ssa.Builtin); ok && b.Name() == "append" {
						merges = append(merges, st)
					}
				}
			}
		}
		c.Floor("merge stores in Invoke", len(merges), 2)
		eng.Dominates(c, "C15.inner-failure-merges-nothing", inv, hg, instrSinks(merges, "merge of callee notifications/crossHashes"), "merge stores", nil)
		eng.Dominates(c, "C15.inner-failure-merges-nothing", inv, hg, successExceptPush(inv), "nil-error return with result", nil)
	}
	// NativeCall: zero call sites (positive control: Invoke IS seen as called by NativeCall)
	if nc := c.Fn(pkNative, "NativeService.NativeCall"); nc != nil {
		callers := cg.Callers(nc)
		if len(callers) == 0 {
			c.Hold("C15.inner-call-propagates", nc, "NativeCall has no call site in the module", c.P.Rel(nc.Pos()), "zero-count rule")
		}
		for _, caller := range callers {
			ncObj := eng.Obj(c, pkNative, "NativeService.NativeCall")
			eng.Dominates(c, "C15.inner-call-propagates", caller, eng.ErrNilOf("NativeCall", ncObj), ir.SuccessSinks(caller), "success return", nil)
		}
		invFn := c.Fn(pkNative, "NativeService.Invoke")
		ctrl := false
		for _, x := range cg.Callers(invFn) {
			if x == nc {
				ctrl = true
			}
		}
		c.Decide(ctrl, "C15.inner-call-propagates", nc, "positive control: caller detection sees NativeCall → Invoke", c.P.Rel(nc.Pos()), "")
	}
}

// successExceptPush: nil-error returns of Invoke other than the documented
// PushContext overflow return (`return err, nil`, unreachable: NativeCall has
// no caller so the context depth never exceeds 1).
func successExceptPush(fn *ssa.Function) []ir.Sink {
	var out []ir.Sink
	for _, s := range ir.SuccessSinks(fn) {
		ret := s.Instr.(*ssa.Return)
		if mi, ok := ret.Results[0].(*ssa.MakeInterface); ok && ir.IsErrorType(mi.X.Type()) {
			continue
		}
		if ci, ok := ret.Results[0].(*ssa.ChangeInterface); ok && ir.IsErrorType(ci.X.Type()) {
			continue
		}
		out = append(out, s)
	}
	return out
}
