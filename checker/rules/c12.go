package rules

import (
	"go/token"
	"strings"

	"golang.org/x/tools/go/ssa"

	"polyverif/core"
	"polyverif/eng"
	"polyverif/ir"
)

// C12 — ledger recovers exactly after a crash at any persistence point.

func init() {
	core.Register(&core.Check{
		ID: "C12", Level: "other", Title: "Ledger recovers exactly after a crash at any persistence point",
		Technique: "call ordering on the CFG + symbolic loop-range extraction + who-may-write (batched writes only)",
		Explain:   "Structural necessary conditions of crash-exact recovery in core/store/ledgerstore: (order) in submitBlock the three save… calls precede every CommitTo and the commits happen in the order blockStore ≺ eventStore ≺ stateStore ≺ setCurrentBlock, each later step dominated by the earlier step's err==nil — this makes 'block store ahead of state store by committed blocks' the only possible crash image, which recoverStore assumes; (range) in recoverStore the set of heights replayed is extracted symbolically from the induction variable (initial value, exit comparison, argument offset) and must equal (stateHeight, blockHeight] with stateHeight = result of stateStore.GetCurrentBlock and blockHeight = GetCurrentBlockHeight(); inside the loop the order is NewBatch ≺ executeBlock ≺ saveBlockToStateStore ≺ saveBlockToEventStore ≺ eventStore.CommitTo ≺ stateStore.CommitTo, mirroring submitBlock; (atomic batches) no function reachable from saveBlockToBlockStore / saveBlockToStateStore / saveBlockToEventStore writes the underlying key-value store outside the batch (PersistStore.Put/Delete are forbidden there; only BatchPut/BatchDelete), so everything of one block in one store lands with that store's single commit. NOT decided: equality of the roots after recovery, file-hash-store truncation semantics, dropped errors of hashStore.Append/Flush.",
		Run:       runC12,
	})
}

// storeCall: a call of method `name` whose receiver is the LedgerStoreImp field `field`.
func storeCall(field, name string) func(ssa.CallInstruction) bool {
	return func(ci ssa.CallInstruction) bool {
		o := ir.CalleeObj(ci)
		if o == nil || o.Name() != name {
			return false
		}
		var recv ssa.Value
		if ci.Common().IsInvoke() {
			recv = ci.Common().Value
		} else if len(ci.Common().Args) > 0 {
			recv = ci.Common().Args[0]
		}
		return recv != nil && isFieldNamed(recv, field)
	}
}

func methodCall(name string) func(ssa.CallInstruction) bool {
	return func(ci ssa.CallInstruction) bool {
		o := ir.CalleeObj(ci)
		return o != nil && o.Name() == name
	}
}

// precedes: every call matching `later` is unreachable without first executing a call matching `first`.
// The calls may have been moved into private helpers: when `later` is not called in fn itself the
// helper call through which it happens is the sink, and when neither is, the order is decided
// inside the helper that hosts `later` (obligations stay attributed to fn).
func precedes(c *core.Ctx, rule string, fn *ssa.Function, firstDesc string, first func(ssa.CallInstruction) bool, laterDesc string, later func(ssa.CallInstruction) bool, opt *eng.Opt) {
	ls := ir.Calls(fn, later)
	if len(ls) > 0 {
		eng.MustPassCall(c, rule, fn, firstDesc, first, ir.CallSinks(ls, laterDesc), laterDesc, opt)
		return
	}
	through := ir.CallsThrough(fn, later, 2)
	if len(through) == 0 {
		c.Broken(rule, fn, firstDesc+" ≺ "+laterDesc, c.P.Rel(fn.Pos()), "no call of "+laterDesc)
		return
	}
	if len(ir.Calls(fn, first)) > 0 || opt != nil {
		eng.MustPassCall(c, rule, fn, firstDesc, first, ir.CallSinks(through, laterDesc), laterDesc, opt)
		return
	}
	for _, t := range through {
		h := t.Common().StaticCallee()
		if h == nil {
			continue
		}
		c.Attribute(h, fn)
		unbind := ir.BindParams(h, t.Common().Args)
		precedes(c, rule, h, firstDesc, first, laterDesc, later, nil)
		unbind()
	}
}

// laterSinks: the calls matching `later` as sinks for a dominance obligation about fn — in fn, or
// (host != fn) inside the private helper that performs them when `first` is there too.
func laterSinks(fn *ssa.Function, first, later func(ssa.CallInstruction) bool, desc string) (host *ssa.Function, sinks []ir.Sink, release func()) {
	release = func() {}
	if ls := ir.Calls(fn, later); len(ls) > 0 {
		return fn, ir.CallSinks(ls, desc), release
	}
	through := ir.CallsThrough(fn, later, 2)
	if len(through) == 0 {
		return fn, nil, release
	}
	if len(ir.Calls(fn, first)) > 0 {
		return fn, ir.CallSinks(through, desc), release
	}
	t := through[0]
	h := t.Common().StaticCallee()
	if h == nil {
		return fn, nil, release
	}
	return h, ir.CallSinks(ir.Calls(h, later), desc), ir.BindParams(h, t.Common().Args)
}

func errNilOfCall(pred func(ssa.CallInstruction) bool) ir.Guard {
	return ir.ErrNil(func(cl *ssa.Call) bool { return pred(cl) })
}

func runC12(c *core.Ctx) {
	checkCrossStatesWrittenOnReplay(c, "C12.replay-writes-cross-states")
	checkRecoverAfterLoad(c)
	checkReplayWritesWhatSubmitWrites(c)
	sb := c.Fn(pkLedger, "LedgerStoreImp.submitBlock")
	if sb != nil {
		saves := []string{"saveBlockToBlockStore", "saveBlockToStateStore", "saveBlockToEventStore"}
		commits := []struct{ field, desc string }{{"blockStore", "blockStore.CommitTo"}, {"eventStore", "eventStore.CommitTo"}, {"stateStore", "stateStore.CommitTo"}}
		for _, s := range saves {
			for _, cm := range commits {
				precedes(c, "C12.save≺commit", sb, s, methodCall(s), cm.desc, storeCall(cm.field, "CommitTo"), nil)
			}
			{
				host, sinks, release := laterSinks(sb, methodCall(s), storeCall("blockStore", "CommitTo"), "blockStore.CommitTo")
				if host != sb {
					c.Attribute(host, sb)
				}
				eng.Dominates(c, "C12.save≺commit", host, eng.NamedGuard{Name: s + " err==nil", G: errNilOfCall(methodCall(s))}, sinks, "blockStore.CommitTo", nil)
				release()
			}
		}
		checkCommitOrder(c, "C12.commit-order")
		scb := ir.Calls(sb, methodCall("setCurrentBlock"))
		c.Floor("setCurrentBlock in submitBlock", len(scb), 1)
		eng.Dominates(c, "C12.commit-order", sb, eng.NamedGuard{Name: "stateStore.CommitTo err==nil", G: errNilOfCall(storeCall("stateStore", "CommitTo"))},
			ir.CallSinks(scb, "setCurrentBlock"), "setCurrentBlock (in-memory tip)", nil)
		for _, f := range []string{"blockStore", "stateStore", "eventStore"} {
			precedes(c, "C12.batch-opened", sb, f+".NewBatch", storeCall(f, "NewBatch"), "saveBlockTo…", func(ci ssa.CallInstruction) bool {
				o := ir.CalleeObj(ci)
				return o != nil && strings.HasPrefix(o.Name(), "saveBlockTo")
			}, nil)
		}
	}

	// recoverStore
	rs := c.Fn(pkLedger, "LedgerStoreImp.recoverStore")
	if rs != nil {
		checkRecoverRange(c, rs)
		// loop-body order
		rr := findReplayRead(rs)
		if rr != nil {
			opt := &eng.Opt{Start: rr.site}
			seq := []struct {
				desc string
				pred func(ssa.CallInstruction) bool
			}{
				{"stateStore.NewBatch", storeCall("stateStore", "NewBatch")},
				{"executeBlock", methodCall("executeBlock")},
				{"saveBlockToStateStore", methodCall("saveBlockToStateStore")},
				{"saveBlockToEventStore", methodCall("saveBlockToEventStore")},
				{"eventStore.CommitTo", storeCall("eventStore", "CommitTo")},
				{"stateStore.CommitTo", storeCall("stateStore", "CommitTo")},
			}
			for i := 0; i+1 < len(seq); i++ {
				precedes(c, "C12.replay-order", rs, seq[i].desc, seq[i].pred, seq[i+1].desc, seq[i+1].pred, opt)
			}
			precedes(c, "C12.replay-order", rs, "eventStore.NewBatch", storeCall("eventStore", "NewBatch"), "saveBlockToEventStore", methodCall("saveBlockToEventStore"), opt)
			for i := 1; i+1 < len(seq); i++ {
				if seq[i].desc == "executeBlock" || strings.HasPrefix(seq[i].desc, "save") || strings.HasSuffix(seq[i].desc, "CommitTo") {
					eng.Dominates(c, "C12.replay-order", rs, eng.NamedGuard{Name: seq[i].desc + " err==nil", G: errNilOfCall(seq[i].pred)},
						ir.CallSinks(ir.Calls(rs, seq[i+1].pred), seq[i+1].desc), seq[i+1].desc, nil)
				}
			}
			// the block replayed is the one fetched for that height
			for _, ex := range ir.Calls(rs, methodCall("executeBlock")) {
				blk := ex.Common().Args[1]
				okB := rr.isBlock(blk)
				c.Decide(okB, "C12.replay-order", rs, "the block executed is blockStore.GetBlock(blockStore.GetBlockHash(i))", c.P.Rel(ex.Pos()), "")
			}
		} else {
			c.Broken("C12.replay-order", rs, "blockStore.GetBlockHash call", c.P.Rel(rs.Pos()), "neither a direct read nor a helper that reads the block of its height parameter")
		}
	}

	// batched writes only
	cg := c.P.CG()
	var roots []*ssa.Function
	for _, n := range []string{"saveBlockToBlockStore", "saveBlockToStateStore", "saveBlockToEventStore"} {
		if f := c.Fn(pkLedger, "LedgerStoreImp."+n); f != nil {
			roots = append(roots, f)
		}
	}
	reach := cg.Reachable(roots, func(f *ssa.Function) bool {
		return f.Pkg == nil || !strings.HasPrefix(f.Pkg.Pkg.Path(), ir.Mod+"/core/store")
	})
	nScanned, nBad := 0, 0
	for f := range reach {
		if len(f.Blocks) == 0 || f.Pkg == nil || !strings.HasPrefix(f.Pkg.Pkg.Path(), ir.Mod+"/core/store") {
			continue
		}
		if f.Pkg.Pkg.Path() == ir.Mod+"/core/store/leveldbstore" {
			continue // the key-value store implementation itself
		}
		nScanned++
		c.Touch(f)
		for _, ci := range ir.Calls(f, nil) {
			o := ir.CalleeObj(ci)
			if o == nil || (o.Name() != "Put" && o.Name() != "Delete") {
				continue
			}
			recv := ""
			if sig, ok := o.Type().(interface{ Recv() interface{} }); ok {
				_ = sig
			}
			full := o.FullName()
			if strings.Contains(full, "PersistStore") || strings.Contains(full, "LevelDBStore") || strings.Contains(full, "MemoryCacheStore") {
				recv = full
			}
			if recv == "" {
				continue
			}
			nBad++
			c.Violate("C12.batched-writes-only", f, "no unbatched "+o.Name()+" on the persistent store", c.P.Rel(ci.Pos()),
				"a write that bypasses the batch reaches disk before the store's commit: a crash between the two leaves the store's own records of one block inconsistent ("+strings.Join(ir.PathTo(reach, f), " → ")+")")
		}
	}
	c.Decide(nBad == 0, "C12.batched-writes-only", "core/store/ledgerstore", sprintf("%d functions reachable from the three save… steps use only Batch* writes", nScanned), "", "")
	c.Floor("functions reachable from the save steps", nScanned, 15)
}

// checkRecoverRange extracts the replay range of recoverStore.
func checkRecoverRange(c *core.Ctx, fn *ssa.Function) {
	rr := findReplayRead(fn)
	if rr == nil {
		c.Broken("C12.replay-range", fn, "GetBlockHash(i) call", c.P.Rel(fn.Pos()), "neither a direct read nor a helper that reads the block of its height parameter")
		return
	}
	gbh := []ssa.CallInstruction{rr.site}
	arg := rr.height
	// stateHeight: result #1 of stateStore.GetCurrentBlock ; blockHeight: GetCurrentBlockHeight()
	isS := func(v ssa.Value) bool {
		cl, idx := ir.CallOf(v)
		return cl != nil && idx == 1 && storeCall("stateStore", "GetCurrentBlock")(cl)
	}
	isB := func(v ssa.Value) bool {
		cl, _ := ir.CallOf(v)
		return cl != nil && ir.CalleeObj(cl) != nil && ir.CalleeObj(cl).Name() == "GetCurrentBlockHeight"
	}
	// find the induction phi inside arg
	var phi *ssa.Phi
	var findPhi func(v ssa.Value, d int)
	findPhi = func(v ssa.Value, d int) {
		if d > 6 || phi != nil {
			return
		}
		switch x := v.(type) {
		case *ssa.Phi:
			phi = x
		case *ssa.BinOp:
			findPhi(x.X, d+1)
			findPhi(x.Y, d+1)
		case *ssa.Convert:
			findPhi(x.X, d+1)
		}
	}
	findPhi(arg, 0)
	if phi == nil || len(phi.Edges) != 2 {
		c.Broken("C12.replay-range", fn, "induction variable", c.P.Rel(gbh[0].Pos()), "not a two-edge phi")
		return
	}
	// which edge is the initial value (from outside the loop) and which the step
	var init, step ssa.Value
	for _, e := range phi.Edges {
		if b, ok := e.(*ssa.BinOp); ok && b.Op == token.ADD && b.X == ssa.Value(phi) {
			step = e
		} else {
			init = e
		}
	}
	if init == nil || step == nil {
		c.Broken("C12.replay-range", fn, "induction variable", c.P.Rel(gbh[0].Pos()), "init/step not recognised")
		return
	}
	if k, ok := ir.ConstInt(step.(*ssa.BinOp).Y); !ok || k != 1 {
		c.Violate("C12.replay-range", fn, "heights replayed = (stateHeight, blockHeight]", c.P.Rel(gbh[0].Pos()), "step is not +1")
		return
	}
	// the loop test
	var test *ssa.BinOp
	for _, cd := range ir.Conds(fn) {
		if b, ok := cd.V.(*ssa.BinOp); ok && (b.X == ssa.Value(phi) || b.Y == ssa.Value(phi)) && cd.If.Block() == phi.Block() {
			test = b
		}
	}
	if test == nil {
		c.Broken("C12.replay-range", fn, "loop test", c.P.Rel(gbh[0].Pos()), "not found")
		return
	}
	// first argument value: arg[phi := init] as a tree over S
	first, err1 := eng.ExtractExpr(arg, func(v ssa.Value) bool { return v == ssa.Value(phi) })
	initE, err2 := eng.ExtractExpr(init, isS)
	if err1 != nil || err2 != nil {
		// a start height taken from another store's progress marker is a wrong range, not an unknown shape
		wrongSource := ""
		var walk func(v ssa.Value, d int)
		walk = func(v ssa.Value, d int) {
			if d > 6 || v == nil {
				return
			}
			switch x := v.(type) {
			case *ssa.BinOp:
				walk(x.X, d+1)
				walk(x.Y, d+1)
			case *ssa.Convert:
				walk(x.X, d+1)
			case *ssa.Extract:
				if cl, ok := x.Tuple.(*ssa.Call); ok && !isS(x) {
					if o := ir.CalleeObj(cl); o != nil && strings.HasPrefix(o.Name(), "GetCurrentBlock") {
						wrongSource = ir.ObjName(o)
					}
				}
			}
		}
		walk(init, 0)
		if wrongSource != "" {
			c.Violate("C12.replay-range", fn, "heights replayed = (stateHeight, blockHeight]", c.P.Rel(gbh[0].Pos()), "the replay starts from "+wrongSource+", not from the state store's committed height")
			return
		}
		c.Broken("C12.replay-range", fn, "range trees", c.P.Rel(gbh[0].Pos()), sprintf("%v %v", err1, err2))
		return
	}
	// offset tree `first` over i; compose: firstValue(S) = first(initE(S))
	firstOK := true
	lastOK := true
	var why string
	for s := int64(0); s < 6; s++ {
		if first.Eval(initE.Eval(s)) != s+1 {
			firstOK = false
			why += sprintf("first height replayed for stateHeight=%d is %d (want %d); ", s, first.Eval(initE.Eval(s)), s+1)
			break
		}
	}
	// last value: largest i satisfying the test, then offset
	boundV := test.Y
	if test.Y == ssa.Value(phi) {
		boundV = test.X
	}
	boundE, err3 := eng.ExtractExpr(boundV, isB)
	if err3 != nil {
		c.Broken("C12.replay-range", fn, "loop bound tree", c.P.Rel(test.Pos()), err3.Error())
		return
	}
	for b := int64(1); b < 7; b++ {
		var lastI int64
		bound := boundE.Eval(b)
		switch {
		case test.Op == token.LSS && test.X == ssa.Value(phi):
			lastI = bound - 1
		case test.Op == token.LEQ && test.X == ssa.Value(phi):
			lastI = bound
		case test.Op == token.GTR && test.Y == ssa.Value(phi):
			lastI = bound - 1
		case test.Op == token.GEQ && test.Y == ssa.Value(phi):
			lastI = bound
		default:
			lastOK = false
			why += "loop test form " + test.Op.String() + " not recognised; "
		}
		if !lastOK {
			break
		}
		if first.Eval(lastI) != b {
			lastOK = false
			why += sprintf("last height replayed for blockHeight=%d is %d (want %d); ", b, first.Eval(lastI), b)
			break
		}
	}
	// linear trees: agreement on 6 consecutive points of each variable decides the (affine) identity
	p1, _, e1 := first.QuasiLinear(0)
	p2, _, e2 := initE.QuasiLinear(0)
	p3, _, e3 := boundE.QuasiLinear(0)
	if e1 != nil || e2 != nil || e3 != nil || p1 != 1 || p2 != 1 || p3 != 1 {
		c.Broken("C12.replay-range", fn, "range trees are affine", c.P.Rel(gbh[0].Pos()), "non-affine loop range")
		return
	}
	c.Decide(firstOK && lastOK, "C12.replay-range", fn, "heights replayed = (stateHeight, blockHeight]", c.P.Rel(gbh[0].Pos()),
		sprintf("i0 = %s over S=stateHeight, test i %s %s over B=blockHeight, argument %s over i; %s", initE, test.Op, boundE, first, why))
}
