package rules

import (
	"golang.org/x/tools/go/ssa"

	"polyverif/core"
	"polyverif/eng"
)

// C18 (continued) — who owns a pool entry.  QuitNode lets only the entry's
// recorded Address act on it.  That address is fixed when the candidate is
// approved: it must be the Address of the stored APPLICATION (GetPeerApply, the
// owner who registered and witnessed the candidate), never a field of the
// approval transaction's own parameter (the validator casting the vote) — both
// records have the same two fields, so the slip type-checks.
func checkPoolOwnerIsApplicant(c *core.Ctx) {
	const rule = "C18.pool-owner-is-applicant"
	fn := c.Fn(pkNM, "ApproveCandidate")
	gpa := eng.Obj(c, pkNM, "GetPeerApply")
	if fn == nil || gpa == nil {
		return
	}
	n := 0
	hosts, release := hostsWithHelpers(fn)
	defer release()
	for _, h := range hosts {
		for _, b := range h.Blocks {
			for _, in := range b.Instrs {
				st, ok := in.(*ssa.Store)
				if !ok {
					continue
				}
				fa, ok := st.Addr.(*ssa.FieldAddr)
				if !ok || fieldNameOf(fa) != "Address" {
					continue
				}
				// only stores into a PeerPoolItem
				if pt := fa.X.Type().String(); len(pt) < 12 || pt[len(pt)-12:] != "PeerPoolItem" {
					continue
				}
				n++
				base, f, okf := fieldLoad(st.Val)
				okOwner := okf && f == "Address" && isCallTo(base, gpa)
				c.Decide(okOwner, rule, fn, "the new pool entry's owner is the applicant's address (GetPeerApply(key).Address)", c.P.Rel(st.Pos()),
					"the owner recorded for the approved candidate is "+short(st.Val.String())+", not the address stored with the application: whoever casts the completing vote becomes the only account able to quit the node")
			}
		}
	}
	c.Floor("owner assignments of new pool entries in ApproveCandidate", n, 1)
}
