package rules

import (
	"golang.org/x/tools/go/ssa"

	"polyverif/core"
	"polyverif/ir"
)

// checkRollbackIsACopy: ChangePassword installs the new ciphertext in the live
// record and, when saving fails, puts the old one back.  What it puts back must
// be a copy taken BEFORE the install — a pointer into the record itself (the
// address of one of its fields) reads the new ciphertext by then, and a copy
// taken after the install is the new ciphertext too; either way the wallet in
// memory no longer opens with the old password although the change failed.
func checkRollbackIsACopy(c *core.Ctx, fn *ssa.Function, installs []ssa.CallInstruction) {
	isInstall := map[ssa.CallInstruction]bool{}
	for _, ci := range installs {
		isInstall[ci] = true
	}
	n := 0
	for _, ci := range ir.Calls(fn, func(ci ssa.CallInstruction) bool { o := ir.CalleeObj(ci); return o != nil && o.Name() == "SetKeyPair" }) {
		if isInstall[ci] || len(ci.Common().Args) < 2 {
			continue
		}
		n++
		recv := ir.Strip(ci.Common().Args[0])
		arg := ir.Strip(ci.Common().Args[1])
		bad := ""
		// address of (part of) the record
		for v := arg; v != nil; {
			switch x := v.(type) {
			case *ssa.FieldAddr:
				if ir.Strip(x.X) == recv {
					bad = "the value restored is the address of a field of the record being restored (it reads the new ciphertext)"
				}
				v = ir.Strip(x.X)
				continue
			case *ssa.IndexAddr:
				v = ir.Strip(x.X)
				continue
			}
			break
		}
		// a copy read from the record after the install
		if cl, _ := ir.CallOf(arg); cl != nil && bad == "" {
			if o := ir.CalleeObj(cl); o != nil && o.Name() == "GetKeyPair" {
				for _, inst := range installs {
					r := ir.NewReach(fn)
					r.Run(inst)
					if r.Instr(cl) {
						bad = "the copy restored is read from the record after the new ciphertext was installed"
					}
				}
			}
		}
		c.Decide(bad == "", "C43.change-password", fn, "the ciphertext put back when saving fails is a copy taken before the new one was installed", c.P.Rel(ci.Pos()), bad)
	}
	c.Note(sprintf("ChangePassword: %d rollback SetKeyPair site(s)", n))
}
