package rules

import (
	"golang.org/x/tools/go/ssa"

	"polyverif/core"
	"polyverif/eng"
	"polyverif/ir"
)

// Rules of one property that are necessary conditions of another one too (round 6 of seeded changes):
// they are decided once per property that depends on them, under that property's name.

// nativeEncoders: the Serialization / Serialize / ToArray functions (with closures) of the contract-state scope.
func nativeEncoders(c *core.Ctx) []*ssa.Function {
	var out []*ssa.Function
	for _, f := range funcsOfPkgs(c, "native/...", "core/states") {
		root := f
		for root.Parent() != nil {
			root = root.Parent()
		}
		switch root.Name() {
		case "Serialization", "Serialize", "ToArray":
			out = append(out, f)
		}
	}
	return out
}

// checkStateValuesOrderFree (C11): the bytes a contract writes into the overlay do not depend on Go's map
// iteration order — the digest of a block is a function of those bytes.
func checkStateValuesOrderFree(c *core.Ctx, rule string) {
	n := checkMapEmission(c, rule, nativeEncoders(c))
	c.Floor("map ranges inside the encoders of contract state", n, 8)
}

// checkCommitOrder: the three stores of a block are committed block store first, then events, then state,
// each only after the previous commit succeeded (crash recovery repairs exactly "block store ahead of state
// store"; the reverse leaves a state store ahead of the tip that nothing repairs).
func checkCommitOrder(c *core.Ctx, rule string) {
	sb := c.Fn(pkLedger, "LedgerStoreImp.submitBlock")
	if sb == nil {
		return
	}
	commits := []struct{ field, desc string }{{"blockStore", "blockStore.CommitTo"}, {"eventStore", "eventStore.CommitTo"}, {"stateStore", "stateStore.CommitTo"}}
	for i := 0; i+1 < len(commits); i++ {
		a, b := commits[i], commits[i+1]
		precedes(c, rule, sb, a.desc, storeCall(a.field, "CommitTo"), b.desc, storeCall(b.field, "CommitTo"), nil)
		host, sinks, release := laterSinks(sb, storeCall(a.field, "CommitTo"), storeCall(b.field, "CommitTo"), b.desc)
		if host != sb {
			c.Attribute(host, sb)
		}
		eng.Dominates(c, rule, host, eng.NamedGuard{Name: a.desc + " err==nil", G: errNilOfCall(storeCall(a.field, "CommitTo"))}, sinks, b.desc, nil)
		release()
	}
	_ = ir.Mod
}
