package rules

import (
	"golang.org/x/tools/go/ssa"

	"polyverif/ir"
)

// doubleShaWindow: v is sha256.Sum256(t[:]) with t = sha256.Sum256(w) — written
// inline, or as a call of a module helper whose every return has that form over
// its own single byte-slice parameter.  Returns w (in the caller's terms).
func doubleShaWindow(v ssa.Value, depth int) (ssa.Value, bool) {
	if depth > 2 {
		return nil, false
	}
	outer, _ := ir.CallOf(v)
	if outer == nil {
		return nil, false
	}
	if ir.IsPkgFunc(outer, "crypto/sha256", "Sum256") {
		sl, ok := outer.Common().Args[0].(*ssa.Slice)
		if !ok {
			return nil, false
		}
		al, isAl := sl.X.(*ssa.Alloc)
		if !isAl {
			return nil, false
		}
		inner, _ := ir.CallOf(ir.SingleStore(al))
		if inner == nil || !ir.IsPkgFunc(inner, "crypto/sha256", "Sum256") {
			return nil, false
		}
		return inner.Common().Args[0], true
	}
	h := outer.Common().StaticCallee()
	if h == nil || len(h.Blocks) == 0 || len(outer.Common().Args) != len(h.Params) {
		return nil, false
	}
	var window ssa.Value
	nRet := 0
	for _, b := range h.Blocks {
		if len(b.Instrs) == 0 {
			continue
		}
		ret, ok := b.Instrs[len(b.Instrs)-1].(*ssa.Return)
		if !ok || len(ret.Results) != 1 {
			continue
		}
		nRet++
		w, okW := doubleShaWindow(ret.Results[0], depth+1)
		if !okW {
			return nil, false
		}
		p, isP := w.(*ssa.Parameter)
		if !isP {
			return nil, false
		}
		for i, hp := range h.Params {
			if hp == p {
				window = outer.Common().Args[i]
			}
		}
	}
	return window, nRet >= 1 && window != nil
}
