package rules

import (
	"strings"

	"golang.org/x/tools/go/ssa"

	"polyverif/core"
	"polyverif/ir"
)

// C28 (continued) — shape of the EIP-1559 base-fee step.  The specification
// gives the two directions different clamps: when the parent used MORE gas than
// its target the fee rises by max(delta, 1); when it used LESS the fee falls by
// delta itself (which may be 0) and the result is clamped at 0.  The arithmetic
// is not evaluated; what is decided is which clamp sits in which branch and what
// each clamp is applied to.
func checkBaseFeeShape(c *core.Ctx) {
	fn := c.Fn(pkEthHS, "CalcBaseFee")
	if fn == nil {
		return
	}
	// the branch test parent.GasUsed > parentGasTarget
	var up, down *ssa.BasicBlock
	for _, cd := range ir.Conds(fn) {
		b, ok := cd.V.(*ssa.BinOp)
		if !ok || b.Op.String() != ">" || !isFieldNamed(b.X, "GasUsed") {
			continue
		}
		up, down = cd.If.Block().Succs[0], cd.If.Block().Succs[1]
	}
	if up == nil {
		c.Broken("C28.eip1559", fn, "branch on parent.GasUsed > target", c.P.Rel(fn.Pos()), "not found")
		return
	}
	inBranch := func(b, root *ssa.BasicBlock) bool { return b == root || root.Dominates(b) }
	isBig := func(v ssa.Value, name string) bool { return globalName(v) == name }
	type clamp struct {
		call   *ssa.Call
		branch string
		lower  string
		what   string
	}
	var clamps []clamp
	for _, ci := range ir.Calls(fn, func(ci ssa.CallInstruction) bool { o := ir.CalleeObj(ci); return o != nil && o.Name() == "BigMax" }) {
		cl := ci.(*ssa.Call)
		br := "?"
		switch {
		case inBranch(cl.Block(), up):
			br = "increase"
		case inBranch(cl.Block(), down):
			br = "decrease"
		}
		lower := "?"
		if isBig(cl.Common().Args[1], "Big1") {
			lower = "1"
		} else if isBig(cl.Common().Args[1], "Big0") {
			lower = "0"
		}
		what := bigOpOf(cl.Common().Args[0], 0) // Div (the delta) or Sub (the new fee)
		clamps = append(clamps, clamp{cl, br, lower, what})
	}
	okUp, okDown, extra := false, false, 0
	for _, k := range clamps {
		switch {
		case k.branch == "increase" && k.lower == "1" && k.what == "Div":
			okUp = true
		case k.branch == "decrease" && k.lower == "0" && k.what == "Sub":
			okDown = true
		default:
			extra++
		}
	}
	var desc []string
	for _, k := range clamps {
		desc = append(desc, k.branch+": max("+k.what+", "+k.lower+")")
	}
	c.Decide(okUp && okDown && extra == 0, "C28.eip1559", fn, "base-fee step: rising fee uses max(delta, 1); falling fee subtracts delta itself and clamps the result at 0", c.P.Rel(fn.Pos()), sprintf("%v", desc))
	// the value subtracted in the falling branch is the quotient itself
	okSub := false
	for _, ci := range ir.Calls(fn, func(ci ssa.CallInstruction) bool { o := ir.CalleeObj(ci); return o != nil && o.Name() == "Sub" }) {
		if !inBranch(ci.Block(), down) {
			continue
		}
		a := ci.Common().Args
		if bigOpOf(a[len(a)-1], 0) == "Div" && isFieldNamed(a[len(a)-2], "BaseFee") {
			okSub = true
		}
	}
	c.Decide(okSub, "C28.eip1559", fn, "falling fee = parent.BaseFee − ⌊⌊BaseFee·Δ/target⌋/denominator⌋ (no minimum step)", c.P.Rel(fn.Pos()), "")
}

// bigOpOf names the big.Int operation whose result v is ("Div", "Sub", …).  A
// module helper that computes the number is looked through: all its returns
// must be results of the same operation.
func bigOpOf(v ssa.Value, depth int) string {
	cl, idx := ir.CallOf(v)
	if cl == nil || ir.CalleeObj(cl) == nil {
		return "?"
	}
	h := cl.Common().StaticCallee()
	if depth < 3 && h != nil && len(h.Blocks) > 0 && h.Pkg != nil && h.Pkg.Pkg != nil && strings.HasPrefix(h.Pkg.Pkg.Path(), ir.Mod) {
		if idx < 0 {
			idx = 0
		}
		op := ""
		for _, b := range h.Blocks {
			ret, ok := b.Instrs[len(b.Instrs)-1].(*ssa.Return)
			if !ok || idx >= len(ret.Results) {
				continue
			}
			o := bigOpOf(ret.Results[idx], depth+1)
			if op != "" && o != op {
				return "?"
			}
			op = o
		}
		if op != "" {
			return op
		}
		return "?"
	}
	return ir.CalleeObj(cl).Name()
}
