package rules

import (
	"golang.org/x/tools/go/ssa"

	"polyverif/core"
	"polyverif/ir"
)

// C27 (continued) — BTC light client: "total difficulty equal to its parent's
// plus its own".  In commitHeader the cumulative work stored with a header and
// compared against the best header is
//
//	Add(parent.totalWork, CalcWork(header.Bits))
//
// with `header` the header being committed (the function's parameter) and
// `parent` the stored header looked up by header.PrevBlock (or the tip when the
// tip is the parent).  Crediting the PARENT's bits instead gives the same value
// inside a difficulty period and a wrong fork choice across a retarget.
func checkBtcCumulativeWork(c *core.Ctx) {
	const rule = "C27.btc-work"
	fn := c.Fn("native/service/header_sync/btc", "commitHeader")
	if fn == nil {
		return
	}
	header := paramByName(fn, "header")
	if header == nil {
		c.Broken(rule, fn, "parameter header", c.P.Rel(fn.Pos()), "not found")
		return
	}
	// rootOf: the value (parameter or call result) a field chain starts from
	rootOf := func(v ssa.Value) ssa.Value {
		for d := 0; d < 10; d++ {
			switch x := v.(type) {
			case *ssa.UnOp:
				v = x.X
			case *ssa.FieldAddr:
				v = x.X
			case *ssa.Field:
				v = x.X
			case *ssa.Alloc:
				if sv := ir.SingleStore(x); sv != nil {
					return sv
				}
				return v
			default:
				return v
			}
		}
		return v
	}
	n := 0
	for _, ci := range ir.Calls(fn, func(ci ssa.CallInstruction) bool {
		o := ir.CalleeObj(ci)
		return o != nil && o.Name() == "CalcWork"
	}) {
		n++
		arg := ci.Common().Args[0]
		_, f, okF := fieldLoad(arg)
		own := okF && f == "Bits" && rootOf(arg) == ssa.Value(header)
		why := ""
		if !own {
			why = "the work credited is not that of the header being committed"
			if okF {
				if r := rootOf(arg); r != nil {
					why += " (bits taken from " + r.Name() + ")"
				}
			}
		}
		c.Decide(own, rule, fn, "own work = CalcWork(header.Bits) of the header being committed", c.P.Rel(ci.Pos()), why)
		// it is added to the parent's stored total
		okSum := false
		if v := ci.Value(); v != nil && v.Referrers() != nil {
			for _, r := range *v.Referrers() {
				add, isC := r.(*ssa.Call)
				if !isC || ir.CalleeObj(add) == nil || ir.CalleeObj(add).Name() != "Add" {
					continue
				}
				for _, a := range add.Common().Args {
					if _, f2, ok2 := fieldLoad(a); ok2 && f2 == "totalWork" {
						okSum = true
					}
				}
			}
		}
		c.Decide(okSum, rule, fn, "cumulative work = Add(parent.totalWork, own work)", c.P.Rel(ci.Pos()), "")
	}
	c.Floor("CalcWork calls in btc.commitHeader", n, 1)
}
