package rules

import (
	"go/constant"
	"go/token"
	"go/types"

	"golang.org/x/tools/go/ssa"

	"polyverif/core"
	"polyverif/eng"
	"polyverif/ir"
)

// C25 — vote-based approvals fire exactly once at two thirds.

func init() {
	core.Register(&core.Check{
		ID: "C25", Level: "other", Title: "Vote-based approvals fire exactly once at two thirds",
		Explain: "Template applied to consensus_vote.CheckVotes (vote and ripple routers) and signature_manager.CheckSigns: (a) only current consensus validators may vote: every storage write and every possibly-true return is dominated, under flag-phi feasibility, by the equality of the voter address with AddressFromPubKey(DeserializePublicKey(hex(key))) of a pool entry with Status==ConsensusStatus of the current view; (b) each validator counts once: in the counting loop num++ is dominated per iteration by Status==ConsensusStatus and by presence of that peer's derived address in the vote map, sum++ by Status==ConsensusStatus, and the voter's own +1 and map insertion after the loop are dominated by the 'not yet voted' flag whose only true-definition is dominated by absence of the voter's address in the map; (c) the threshold tree is ≡ ⌈2N/3⌉ over N=sum for all N≥0 and dominates the true return; (d) exactly once: CheckVotes returns false when Status is already set and sets Status=true and stores it before returning true; CheckSigns returns !Status read before setting it. Callers: the voter address passed is the one ValidateOwner accepted. NOT decided: the history statement 'at the first vote that reaches the threshold' (follows from set semantics + the Status flag).",
		Run:     runC25,
	})
}

type voteSpec struct {
	pkg, fn  string
	mapField string // VoteInfo / SigInfo
	getter   string
	putter   string
}

func runC25(c *core.Ctx) {
	checkVoteIdCoversPayload(c, "C25.vote-id")
	checkDecoderRestoresField(c, "C25.once", pkSigM, "SigInfo", "Status", "NextBool")
	checkDecoderRestoresField(c, "C25.once", pkVote, "VoteInfo", "Status", "NextBool")
	for _, sp := range []voteSpec{
		{pkVote, "CheckVotes", "VoteInfo", "getVoteInfo", "putVoteInfo"},
		{pkSigM, "CheckSigns", "SigInfo", "getSigInfo", "putSigInfo"},
	} {
		checkVoteFunc(c, sp)
	}
	// callers pass the witnessed address
	vo := eng.Obj(c, pkUtils, "ValidateOwner")
	cg := c.P.CG()
	n := 0
	for _, sp := range [][2]string{{pkVote, "CheckVotes"}, {pkSigM, "CheckSigns"}} {
		f := c.Fn(sp[0], sp[1])
		if f == nil || vo == nil {
			continue
		}
		for _, e := range cg.In[f] {
			if e.Site == nil {
				continue
			}
			n++
			args := e.Site.Common().Args
			addr := args[len(args)-1]
			// the address may be what a helper returns after witnessing it (parse + ValidateOwner)
			addrVia, release := valueVia(addr)
			g := eng.NamedGuard{Name: "ValidateOwner(voter address) err==nil", G: ir.ErrNil(func(cl *ssa.Call) bool {
				return ir.CalleeIs(cl, vo) && (sameValue(cl.Common().Args[1], addr) || (addrVia != addr && sameValue(cl.Common().Args[1], addrVia)))
			})}
			eng.Dominates(c, "C25.voter-is-witnessed", e.Caller, g, []ir.Sink{{Instr: e.Site, Note: sp[1]}}, sp[1]+" call", nil)
			release()
		}
	}
	c.Floor("CheckVotes/CheckSigns call sites", n, 3)
}

func checkVoteFunc(c *core.Ctx, sp voteSpec) {
	fn := c.Fn(sp.pkg, sp.fn)
	afp := eng.Obj(c, pkTypes, "AddressFromPubKey")
	put := eng.Obj(c, sp.pkg, sp.putter)
	get := eng.Obj(c, sp.pkg, sp.getter)
	if fn == nil || afp == nil || put == nil || get == nil {
		return
	}
	isVoter := func(v ssa.Value) bool { p, ok := ir.Strip(v).(*ssa.Parameter); return ok && p.Name() == "address" }
	loops := eng.FindMapLoops(fn, func(v ssa.Value) bool { return isFieldNamed(v, "PeerPoolMap") })
	memberHost := fn
	if len(loops) == 1 {
		// the membership loop may sit in a same-package helper answering "is a consensus peer"
		hosts, releaseHosts := hostsWithHelpers(fn)
		defer releaseHosts()
		for _, h := range hosts[1:] {
			ls := eng.FindMapLoops(h, func(v ssa.Value) bool { return isFieldNamed(v, "PeerPoolMap") })
			if len(ls) == 1 && memberHost == fn {
				memberHost = h
				loops = append(ls, loops...)
				c.Attribute(h, fn)
			}
		}
	}
	if len(loops) != 2 {
		c.Broken("C25.shape", fn, "two loops over the peer pool", c.P.Rel(fn.Pos()), sprintf("%d", len(loops)))
		return
	}
	// pool provenance
	gppm := eng.Obj(c, pkNM, "GetPeerPoolMap")
	gv := eng.Obj(c, pkNM, "GetView")
	for _, lp := range loops {
		base, _, _ := fieldLoad(lp.Range.X)
		ok := false
		if cl, idx := ir.CallOf(base); cl != nil && idx == 0 && ir.CalleeIs(cl, gppm) {
			ok = isCallTo(cl.Common().Args[1], gv)
		}
		c.Decide(ok, "C25.current-validators", fn, "pool = GetPeerPoolMap(native, GetView(native))", c.P.Rel(lp.Range.Pos()), "")
	}
	// derived address of the iterated peer
	derivedAddr := func(lp eng.MapLoop) func(ssa.Value) bool { return derivedPeerAddr(afp, lp.Next) }
	consensusStatus, _ := c.P.Const(pkNM, "ConsensusStatus")
	statusGuard := eng.NamedGuard{Name: "v.Status == ConsensusStatus", G: func(cd ir.Cond) (bool, bool) {
		b, ok := cd.V.(*ssa.BinOp)
		if !ok || (b.Op != token.EQL && b.Op != token.NEQ) || !isFieldNamed(b.X, "Status") {
			return false, false
		}
		k, okk := ir.Strip(b.Y).(*ssa.Const)
		if !okk || consensusStatus == nil || k.Value == nil || !constant.Compare(k.Value, token.EQL, consensusStatus) {
			return false, false
		}
		// the Status field of a pool item, not of the vote record
		base, _, _ := fieldLoad(b.X)
		if _, isExtract := ir.Strip(base).(*ssa.Extract); !isExtract {
			return false, false
		}
		return true, b.Op == token.EQL
	}}

	// (a) membership
	mlp := loops[0]
	isPeerAddr0 := derivedAddr(mlp)
	member := eng.NamedGuard{Name: "derived address of a ConsensusStatus peer == voter", G: func(cd ir.Cond) (bool, bool) {
		b, ok := cd.V.(*ssa.BinOp)
		if !ok || (b.Op != token.EQL && b.Op != token.NEQ) {
			return false, false
		}
		ld := func(v ssa.Value) ssa.Value {
			if u, ok := v.(*ssa.UnOp); ok {
				return u.X
			}
			return v
		}
		if (isPeerAddr0(b.X) || isPeerAddr0(ld(b.X))) && isVoter(b.Y) || (isPeerAddr0(b.Y) || isPeerAddr0(ld(b.Y))) && isVoter(b.X) {
			return true, b.Op == token.EQL
		}
		return false, false
	}}
	writers := storageWriters(c)
	ws := writeCalls(c, fn, writers)
	trueRets := ir.BoolReturnSinks(fn, 0, true)
	eng.Dominates(c, "C25.only-validators-vote", fn, member, ir.CallSinks(ws, "storage write"), "storage writes", nil)
	eng.Dominates(c, "C25.only-validators-vote", fn, member, trueRets, "possibly-true return", nil)
	// inside the membership loop the equality is reached only for consensus peers
	var eqSinks []ir.Sink
	for _, e := range ir.PassEdges(memberHost, member.G) {
		eqSinks = append(eqSinks, ir.Sink{Instr: e.From.Instrs[len(e.From.Instrs)-1], Note: "address comparison"})
	}
	if len(eqSinks) > 0 {
		eng.Dominates(c, "C25.only-validators-vote", memberHost, statusGuard, eqSinks, "voter comparison (per iteration)", &eng.Opt{StartBlock: mlp.Body})
	}

	// (c) threshold
	var thr *ssa.BinOp
	var thrCond ir.Cond
	var thrNum, thrT ssa.Value
	thrGeq := false
	nThr := 0
	thrIfs := map[*ssa.If]bool{} // threshold comparison -> passes on the true edge
	// `num >= T` (pass on the true edge), its complement `num < T` (pass on the false edge), or either
	// written with the operands swapped (`T <= num`, `T > num`)
	orient := func(b *ssa.BinOp) (num, t ssa.Value, geq, ok bool) {
		isT := func(v ssa.Value) bool {
			if _, isConst := v.(*ssa.Const); isConst {
				return false
			}
			if _, isPhi := v.(*ssa.Phi); isPhi {
				return false // a bare counter is not a threshold expression
			}
			_, err := eng.ExtractExpr(v, func(x ssa.Value) bool { _, isPhi := x.(*ssa.Phi); return isPhi })
			return err == nil
		}
		switch {
		case (b.Op == token.GEQ || b.Op == token.LSS) && isT(b.Y):
			return b.X, b.Y, b.Op == token.GEQ, true
		case (b.Op == token.LEQ || b.Op == token.GTR) && isT(b.X):
			return b.Y, b.X, b.Op == token.LEQ, true
		}
		return nil, nil, false, false
	}
	for _, cd := range ir.Conds(fn) {
		if b, ok := cd.V.(*ssa.BinOp); ok {
			if num, t, geq, okO := orient(b); okO {
				thrIfs[cd.If] = geq
				if thr == nil || (!thrGeq && geq) {
					thr, thrCond, thrNum, thrT, thrGeq = b, cd, num, t, geq
				}
				nThr++
			}
		}
	}
	if thr == nil {
		// the comparison may still be there with an N that is not counted in the loop (len of the
		// whole pool, a stored total …): then N is not "the current consensus validators"
		for _, cd := range ir.Conds(fn) {
			b, ok := cd.V.(*ssa.BinOp)
			if !ok || (b.Op != token.GEQ && b.Op != token.LSS) {
				continue
			}
			if _, isConst := b.Y.(*ssa.Const); isConst {
				continue
			}
			var leaf ssa.Value
			if _, err := eng.ExtractExpr(b.Y, func(v ssa.Value) bool {
				switch v.(type) {
				case *ssa.BinOp, *ssa.Const, *ssa.Convert:
					return false
				}
				leaf = v
				return true
			}); err == nil && leaf != nil {
				c.Violate("C25.threshold", fn, "N of the threshold is counted per ConsensusStatus peer (sum++ in the pool loop)", c.P.Rel(b.Pos()),
					"the threshold is computed over "+leaf.Name()+" ("+leaf.String()+"), which is not a count of the current consensus validators: peers that cannot vote inflate N and the message is released late or never")
				return
			}
		}
		c.Broken("C25.threshold", fn, "num >= T(sum)", c.P.Rel(fn.Pos()), "not found")
		return
	}
	var sumPhi *ssa.Phi
	tree, err := eng.ExtractExpr(thrT, func(v ssa.Value) bool {
		if p, ok := v.(*ssa.Phi); ok {
			sumPhi = p
			return true
		}
		return false
	})
	if err != nil || sumPhi == nil {
		c.Broken("C25.threshold", fn, "threshold tree", c.P.Rel(thr.Pos()), sprintf("%v", err))
		return
	}
	ok, why := eng.EqualForAll(tree, eng.FormulaCeil2N3(), 0)
	c.Decide(ok, "C25.threshold", fn, "fires iff num >= ⌈2·sum/3⌉", c.P.Rel(thr.Pos()), why)
	// every other comparison of num against a sum expression (CheckSigns has a second one) uses the same tree
	for _, cd := range ir.Conds(fn) {
		if b, okb := cd.V.(*ssa.BinOp); okb && cd.If != thrCond.If {
			if _, t, _, okO := orient(b); okO {
				if t2, err := eng.ExtractExpr(t, func(v ssa.Value) bool { return v == ssa.Value(sumPhi) }); err == nil {
					ok2, why2 := eng.EqualForAll(t2, eng.FormulaCeil2N3(), 0)
					c.Decide(ok2, "C25.threshold", fn, "secondary comparison uses ⌈2·sum/3⌉", c.P.Rel(b.Pos()), why2)
				}
			}
		}
	}
	thrGuard := eng.NamedGuard{Name: "num >= ⌈2·sum/3⌉", G: func(cd ir.Cond) (bool, bool) {
		if onTrue, is := thrIfs[cd.If]; is {
			return true, onTrue
		}
		return false, false
	}}
	eng.Dominates(c, "C25.threshold", fn, thrGuard, trueRets, "possibly-true return", nil)

	// (b) counting loop
	clp := loops[1]
	isPeerAddr1 := derivedAddr(clp)
	// num: the phi compared; its in-loop increments
	numV := thrNum
	numLeaves := eng.PhiLeaves(nil, numV)
	var incs []*ssa.BinOp
	seenInc := map[*ssa.BinOp]bool{}
	var collect func(v ssa.Value, d int)
	collect = func(v ssa.Value, d int) {
		if d > 8 {
			return
		}
		switch x := v.(type) {
		case *ssa.BinOp:
			if x.Op == token.ADD && !seenInc[x] {
				seenInc[x] = true
				incs = append(incs, x)
				collect(x.X, d+1)
			}
		case *ssa.Phi:
			for _, e := range x.Edges {
				collect(e, d+1)
			}
		}
	}
	for _, l := range numLeaves {
		collect(l, 0)
	}
	collect(numV, 0)
	region := loopRegion(clp)
	var inLoop, afterLoop []ir.Sink
	for _, inc := range incs {
		k, okk := ir.ConstInt(inc.Y)
		c.Decide(okk && k == 1, "C25.count", fn, "num changes by +1 only", c.P.Rel(inc.Pos()), "")
		if region[inc.Block()] {
			inLoop = append(inLoop, ir.Sink{Instr: inc, Note: "num++ in loop"})
		} else {
			afterLoop = append(afterLoop, ir.Sink{Instr: inc, Note: "voter's own +1"})
		}
	}
	c.Decide(len(inLoop) == 1 && len(afterLoop) == 1, "C25.count", fn, "num is incremented once per counted validator and once for the new voter", c.P.Rel(clp.Range.Pos()), sprintf("%d in loop, %d after", len(inLoop), len(afterLoop)))
	voted := func(isKey func(ssa.Value) bool) ir.Guard {
		return func(cd ir.Cond) (bool, bool) {
			ex, ok := cd.V.(*ssa.Extract)
			if !ok || ex.Index != 1 {
				return false, false
			}
			lk, ok := ex.Tuple.(*ssa.Lookup)
			if !ok || !isFieldNamed(lk.X, sp.mapField) {
				return false, false
			}
			cl, _ := ir.CallOf(lk.Index)
			if cl == nil || ir.CalleeObj(cl) == nil || ir.CalleeObj(cl).Name() != "ToBase58" {
				return false, false
			}
			recv := cl.Common().Args[0]
			if u, ok := recv.(*ssa.UnOp); ok {
				recv = u.X
			}
			if !isKey(recv) && !isKey(cl.Common().Args[0]) {
				return false, false
			}
			return true, true
		}
	}
	opt := &eng.Opt{StartBlock: clp.Body}
	if len(inLoop) > 0 {
		eng.Dominates(c, "C25.count", fn, statusGuard, inLoop, "num++ (per iteration)", opt)
		eng.Dominates(c, "C25.count", fn, eng.NamedGuard{Name: sp.mapField + "[derived address of this peer] present", G: voted(isPeerAddr1)}, inLoop, "num++ (per iteration)", opt)
	}
	// sum
	var sumInc []ir.Sink
	for _, e := range sumPhi.Edges {
		if b, ok := e.(*ssa.BinOp); ok && b.Op == token.ADD {
			sumInc = append(sumInc, ir.Sink{Instr: b, Note: "sum++"})
		}
		if p, ok := e.(*ssa.Phi); ok {
			for _, e2 := range p.Edges {
				if b, ok := e2.(*ssa.BinOp); ok && b.Op == token.ADD {
					sumInc = append(sumInc, ir.Sink{Instr: b, Note: "sum++"})
				}
			}
		}
	}
	if len(sumInc) == 0 {
		c.Broken("C25.count", fn, "sum++", c.P.Rel(clp.Range.Pos()), "increment not found")
	} else {
		eng.Dominates(c, "C25.count", fn, statusGuard, sumInc, "sum++ (per iteration)", opt)
		notCons := ir.PassEdges(fn, func(cd ir.Cond) (bool, bool) { ok, pt := statusGuard.G(cd); return ok, !pt })
		r := ir.NewReach(fn).CutEdges(notCons)
		for _, s := range sumInc {
			r.Barrier[s.Instr] = true
		}
		r.RunFromBlock(clp.Body)
		c.Decide(!r.BlockEntered(clp.Header), "C25.count", fn, "every ConsensusStatus entry is counted in sum", c.P.Rel(clp.Range.Pos()), "")
	}
	// the voter's own +1 and insertion: dominated by the not-yet-voted flag
	var flagIf *ssa.If
	// phis of the counting loop that receive a constant true: the candidates for a not-yet-voted flag
	regionFlag := map[*ssa.Phi]bool{}
	for _, b := range fn.Blocks {
		if !region[b] && b != clp.Header {
			continue
		}
		for _, in := range b.Instrs {
			if p, ok := in.(*ssa.Phi); ok {
				for _, e := range p.Edges {
					if k, isK := ir.ConstBool(e); isK && k {
						regionFlag[p] = true
					}
				}
			}
		}
	}
	var fedByRegionFlag func(v ssa.Value, d int) bool
	fedByRegionFlag = func(v ssa.Value, d int) bool {
		p, ok := v.(*ssa.Phi)
		if !ok || d > 6 {
			return false
		}
		if regionFlag[p] {
			return true
		}
		for _, e := range p.Edges {
			if e != v && fedByRegionFlag(e, d+1) {
				return true
			}
		}
		return false
	}
	for _, cd := range ir.Conds(fn) {
		if p, ok := cd.V.(*ssa.Phi); ok && !region[cd.If.Block()] {
			if b, isB := p.Type().Underlying().(*types.Basic); isB && b.Kind() == types.Bool {
				// the flag: has a constant-true incoming definition somewhere inside the counting loop
				if fedByRegionFlag(p, 0) {
					flagIf = cd.If
				}
			}
		}
	}
	var inserts []ir.Sink
	for _, b := range fn.Blocks {
		for _, in := range b.Instrs {
			if mu, ok := in.(*ssa.MapUpdate); ok && isFieldNamed(mu.Map, sp.mapField) {
				inserts = append(inserts, ir.Sink{Instr: mu, Note: "map insertion"})
				cl, _ := ir.CallOf(mu.Key)
				okKey := cl != nil && ir.CalleeObj(cl) != nil && ir.CalleeObj(cl).Name() == "ToBase58"
				if okKey {
					recv := cl.Common().Args[0]
					if u, isU := recv.(*ssa.UnOp); isU {
						recv = u.X
					}
					okKey = isVoter(recv) || isVoter(cl.Common().Args[0]) || func() bool {
						al, isAl := recv.(*ssa.Alloc)
						return isAl && ir.SingleStore(al) != nil && isVoter(ir.SingleStore(al))
					}()
				}
				c.Decide(okKey, "C25.count", fn, "the vote recorded is keyed by the voter's address", c.P.Rel(mu.Pos()), "")
			}
		}
	}
	if flagIf == nil {
		// written without a flag: the voter's own +1 and the insertion stand directly under the test
		// "the voter is not in the map yet"
		direct := eng.NamedGuard{Name: sp.mapField + "[voter] absent", G: func(cd ir.Cond) (bool, bool) {
			ok, _ := voted(func(v ssa.Value) bool {
				if isVoter(v) {
					return true
				}
				al, isAl := v.(*ssa.Alloc)
				return isAl && ir.SingleStore(al) != nil && isVoter(ir.SingleStore(al))
			})(cd)
			return ok, false
		}}
		if len(ir.PassEdges(fn, direct.G)) == 0 {
			c.Broken("C25.count", fn, "not-yet-voted flag", c.P.Rel(fn.Pos()), "flag test not found")
			return
		}
		eng.Dominates(c, "C25.count", fn, direct, append(append([]ir.Sink{}, afterLoop...), inserts...), "voter's +1 and map insertion", nil)
	}
	if flagIf != nil {
		c25FlagPart(c, fn, flagIf, afterLoop, inserts, region, clp, voted, isVoter, sp.mapField, opt)
	}
	// (d) exactly once
	if sp.fn == "CheckVotes" {
		statusFalse := eng.NamedGuard{Name: "!voteInfo.Status", G: func(cd ir.Cond) (bool, bool) {
			base, f, ok := fieldLoad(cd.V)
			if !ok || f != "Status" || !isCallTo(base, get) {
				return false, false
			}
			return true, false
		}}
		eng.Dominates(c, "C25.once", fn, statusFalse, trueRets, "return true", nil)
		eng.Dominates(c, "C25.once", fn, statusFalse, ir.CallSinks(ws, "storage write"), "storage writes", nil)
	}
	// Status = true stored before the firing return
	var statusStores []ssa.Instruction
	for _, b := range fn.Blocks {
		for _, in := range b.Instrs {
			if st, ok := in.(*ssa.Store); ok {
				if fa, isFA := st.Addr.(*ssa.FieldAddr); isFA {
					stt := fa.X.Type().Underlying().(*types.Pointer).Elem().Underlying().(*types.Struct)
					if stt.Field(fa.Field).Name() == "Status" {
						if k, isK := ir.ConstBool(st.Val); isK && k {
							statusStores = append(statusStores, st)
						}
					}
				}
			}
		}
	}
	c.Decide(len(statusStores) == 1, "C25.once", fn, "Status = true is set at one place", c.P.Rel(fn.Pos()), sprintf("%d", len(statusStores)))
	if len(statusStores) == 1 {
		r := ir.NewReach(fn)
		r.Barrier[statusStores[0]] = true
		r.Run(nil)
		okS := true
		for _, s := range trueRets {
			if r.SinkReachable(s) {
				okS = false
			}
		}
		c.Decide(okS, "C25.once", fn, "Status = true precedes every possibly-true return", c.P.Rel(statusStores[0].Pos()), "")
		// and is persisted afterwards
		r2 := ir.NewReach(fn)
		for _, p := range ir.CallsTo(fn, put) {
			r2.Barrier[p] = true
		}
		r2.Run(statusStores[0])
		okP := true
		for _, s := range trueRets {
			if r2.SinkReachable(s) {
				okP = false
			}
		}
		c.Decide(okP, "C25.once", fn, "the record with Status=true is stored before returning", c.P.Rel(statusStores[0].Pos()), "")
		eng.Dominates(c, "C25.once", fn, thrGuard, instrSinks(statusStores, "Status = true"), "Status = true", nil)
	}
	if sp.fn == "CheckSigns" {
		// returns !Status read BEFORE the store
		okE := false
		for _, s := range trueRets {
			ret := s.Instr.(*ssa.Return)
			if u, ok := ret.Results[0].(*ssa.UnOp); ok && u.Op == token.NOT {
				if _, f, okf := fieldLoad(u.X); okf && f == "Status" && len(statusStores) == 1 {
					// the load precedes the store in the same block
					ld := u.X.(*ssa.UnOp)
					if ld.Block() == statusStores[0].Block() {
						for _, in := range ld.Block().Instrs {
							if in == ssa.Instruction(ld) {
								okE = true
								break
							}
							if in == statusStores[0] {
								break
							}
						}
					}
				}
			}
		}
		c.Decide(okE, "C25.once", fn, "the quorum event flag is !Status read before Status is set", c.P.Rel(fn.Pos()), "")
	}
}

func loopRegion(lp eng.MapLoop) map[*ssa.BasicBlock]bool {
	region := map[*ssa.BasicBlock]bool{}
	work := []*ssa.BasicBlock{lp.Body}
	for len(work) > 0 {
		b := work[len(work)-1]
		work = work[:len(work)-1]
		if region[b] || b == lp.Exit || b == lp.Header {
			continue
		}
		region[b] = true
		work = append(work, b.Succs...)
	}
	return region
}

// c25FlagPart: the not-yet-voted flag form — the voter's own +1 and the insertion are dominated by the flag
// test, and the flag is set true only where the voter was looked up and not found.
func c25FlagPart(c *core.Ctx, fn *ssa.Function, flagIf *ssa.If, afterLoop, inserts []ir.Sink, region map[*ssa.BasicBlock]bool, clp eng.MapLoop,
	voted func(func(ssa.Value) bool) ir.Guard, isVoter func(ssa.Value) bool, mapField string, opt *eng.Opt) {
	flagV := flagIf.Cond
	for {
		if u, isU := flagV.(*ssa.UnOp); isU && u.Op == token.NOT {
			flagV = u.X
			continue
		}
		break
	}
	flagGuard := eng.NamedGuard{Name: "not-yet-voted flag", G: func(cd ir.Cond) (bool, bool) {
		if cd.If == flagIf {
			return true, true // cd.V is the flag itself (negations are folded into the edge index)
		}
		// a second test of the very same flag value
		if _, isPhi := cd.V.(*ssa.Phi); isPhi && cd.V == flagV {
			return true, true
		}
		return false, false
	}}
	eng.Dominates(c, "C25.count", fn, flagGuard, append(append([]ir.Sink{}, afterLoop...), inserts...), "voter's +1 and map insertion", nil)
	// the flag's true definitions
	notVoted := eng.NamedGuard{Name: mapField + "[voter] absent", G: func(cd ir.Cond) (bool, bool) {
		ok, _ := voted(func(v ssa.Value) bool {
			if isVoter(v) {
				return true
			}
			al, isAl := v.(*ssa.Alloc)
			return isAl && ir.SingleStore(al) != nil && isVoter(ir.SingleStore(al))
		})(cd)
		return ok, false
	}}
	var trueDefs []ir.Sink
	for _, b := range fn.Blocks {
		if !region[b] && b != clp.Header {
			continue
		}
		for _, in := range b.Instrs {
			p, ok := in.(*ssa.Phi)
			if !ok {
				continue
			}
			if bt, isB := p.Type().Underlying().(*types.Basic); !isB || bt.Kind() != types.Bool {
				continue
			}
			for i, e := range p.Edges {
				if k, isK := ir.ConstBool(e); isK && k {
					pred := b.Preds[i]
					trueDefs = append(trueDefs, ir.Sink{Instr: p, Via: &ir.Edge{From: pred, Idx: indexOfSucc(pred, b)}, Note: "flag = true"})
				}
			}
		}
	}
	if len(trueDefs) == 0 {
		c.Broken("C25.count", fn, "flag = true definition", c.P.Rel(clp.Range.Pos()), "not found")
	} else {
		eng.Dominates(c, "C25.count", fn, notVoted, trueDefs, "flag = true (per iteration)", opt)
	}

}
