package rules

import (
	"go/token"

	"golang.org/x/tools/go/ssa"

	"polyverif/core"
	"polyverif/ir"
)

// C29 (continued) — polygon-bor: "the validator set in effect at its height".  A
// sprint-end header at height h carries the producers of the sprint that starts
// at h+1; they are accepted only if they match the heimdall span that CONTAINS
// h+1:  span.StartBlock <= h+1 && span.EndBlock >= h+1.  Both bounds of an
// interval-membership test must be taken against the same subject; testing the
// upper bound against h lets the header at span.EndBlock be validated against
// the expiring span, so its producers can re-announce themselves for the next one.
func checkSpanMembership(c *core.Ctx) {
	const rule = "C29.span-contains-next-block"
	fn := c.Fn("native/service/header_sync/polygon", "validateHeaderExtraFieldWithSpan")
	if fn == nil {
		return
	}
	var loSubj, hiSubj ssa.Value
	var loPos, hiPos token.Pos
	for _, cd := range ir.Conds(fn) {
		b, ok := cd.V.(*ssa.BinOp)
		if !ok {
			continue
		}
		switch b.Op {
		case token.LEQ, token.GEQ, token.LSS, token.GTR:
		default:
			continue
		}
		for _, side := range [][2]ssa.Value{{b.X, b.Y}, {b.Y, b.X}} {
			if _, f, okf := fieldLoad(side[0]); okf {
				switch f {
				case "StartBlock":
					loSubj, loPos = side[1], b.Pos()
				case "EndBlock":
					hiSubj, hiPos = side[1], b.Pos()
				}
			}
		}
	}
	if loSubj == nil || hiSubj == nil {
		c.Broken(rule, fn, "span.StartBlock / span.EndBlock comparisons", c.P.Rel(fn.Pos()), "not found")
		return
	}
	c.Decide(sameArith(loSubj, hiSubj, 0), rule, fn, "both bounds of the span test are taken against the same block number", c.P.Rel(hiPos),
		sprintf("lower bound tested against %s (at %s), upper bound against %s: the span is not required to contain the block the producers are for", loSubj.String(), c.P.Rel(loPos), hiSubj.String()))
	// and that subject is height+1
	isNext := func(v ssa.Value) bool {
		b, ok := v.(*ssa.BinOp)
		if !ok || b.Op != token.ADD {
			return false
		}
		k, isK := ir.ConstInt(b.Y)
		return isK && k == 1
	}
	c.Decide(isNext(loSubj) && isNext(hiSubj), rule, fn, "the block number tested is height+1 (the first block the announced producers seal)", c.P.Rel(loPos), "")
}
