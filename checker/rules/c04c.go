package rules

import (
	"strings"

	"golang.org/x/tools/go/ssa"

	"polyverif/core"
	"polyverif/ir"
)

// encodersIn returns the top-level encoder functions (Serialization, Serialize,
// SerializeUnsigned, serializationUnsigned, ToArray …) of the module packages
// selected by inScope (module-relative path).
func encodersIn(c *core.Ctx, inScope func(rel string) bool) []*ssa.Function {
	var out []*ssa.Function
	for _, pk := range c.P.Mod {
		if pk.SSA == nil || pk.Types == nil {
			continue
		}
		rel := strings.TrimPrefix(pk.Types.Path(), ir.Mod+"/")
		if !inScope(rel) {
			continue
		}
		for _, f := range allFuncs(pk.SSA) {
			if f.Parent() != nil {
				continue
			}
			n := strings.ToLower(f.Name())
			if strings.HasPrefix(n, "serializ") || n == "toarray" {
				out = append(out, f)
			}
		}
	}
	return out
}

// checkEncoderCounts runs the two count rules over the encoders of a scope.
func checkEncoderCounts(c *core.Ctx, rule string, inScope func(rel string) bool, floorLoops, floorPairs int) {
	encs := encodersIn(c, inScope)
	nl := checkEncoderLoopsProductive(c, rule, encs)
	np := checkCountNamesCollection(c, rule, encs)
	c.Note("%s: %d encoder(s), %d collecting/emitting loop(s), %d count-prefix/loop pair(s)", rule, len(encs), nl, np)
	c.Floor("collecting/emitting loops in encoders ("+rule+")", nl, floorLoops)
	c.Floor("count-prefix/loop pairs in encoders ("+rule+")", np, floorPairs)
}
