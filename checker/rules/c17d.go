package rules

import (
	"strings"

	"golang.org/x/tools/go/ssa"

	"polyverif/core"
	"polyverif/ir"
)

// C17 (continued) — records of one kind with different parameters live under
// different keys.  A pure reader accessor (one CacheDB.Get, no write) can tell
// two records apart only through its key: every identifying parameter it takes
// (chain id, request id, hash, address …) must flow into the key it reads.  A
// parameter that reaches only an error message means two parameter values read
// — and, the writer being its mirror, write — the same record.
func checkReaderParamsInKey(c *core.Ctx, rule string, inScope func(rel string) bool) int {
	n := 0
	for _, pk := range c.P.Mod {
		if pk.SSA == nil || pk.Types == nil {
			continue
		}
		rel := strings.TrimPrefix(pk.Types.Path(), ir.Mod+"/")
		if !inScope(rel) {
			continue
		}
		for _, fn := range allFuncs(pk.SSA) {
			if fn.Parent() != nil || len(fn.Blocks) == 0 || fn.Signature.Recv() != nil {
				continue
			}
			ln := strings.ToLower(fn.Name())
			if !strings.HasPrefix(ln, "get") && !strings.HasPrefix(ln, "check") && !strings.HasPrefix(ln, "is") {
				continue
			}
			var gets []ssa.CallInstruction
			writes := 0
			other := 0
			for _, ci := range ir.Calls(fn, nil) {
				o := ir.CalleeObj(ci)
				if o == nil {
					continue
				}
				if recvNamedCI(ci, "CacheDB") {
					switch o.Name() {
					case "Get":
						gets = append(gets, ci)
					case "Put", "Delete":
						writes++
					}
					continue
				}
				// calls of other module functions that take the native service may use the parameter for their own lookups
				if o.Pkg() != nil && strings.HasPrefix(o.Pkg().Path(), ir.Mod) && !recvNamedCI(ci, "NativeService") {
					for _, a := range ci.Common().Args {
						if strings.HasSuffix(a.Type().String(), "native.NativeService") {
							other++
						}
					}
				}
			}
			if len(gets) != 1 || writes != 0 || other != 0 {
				continue
			}
			key := gets[0].Common().Args[1]
			for _, p := range fn.Params {
				t := p.Type().String()
				if strings.HasSuffix(t, "native.NativeService") {
					continue
				}
				n++
				c.Touch(fn)
				ok := flowsInto(p, key, map[ssa.Value]bool{}, 0)
				c.Decide(ok, rule, fn, "parameter "+p.Name()+" of the reader flows into the key it reads", c.P.Rel(gets[0].Pos()),
					"the parameter does not take part in the key: records that differ only in "+p.Name()+" share one storage key")
			}
		}
	}
	return n
}

// flowsInto: value `from` is (transitively) an operand of `to`.
func flowsInto(from, to ssa.Value, seen map[ssa.Value]bool, d int) bool {
	if from == to {
		return true
	}
	if d > 14 || seen[to] {
		return false
	}
	seen[to] = true
	var ops []*ssa.Value
	if in, ok := to.(ssa.Instruction); ok {
		ops = in.Operands(nil)
	}
	for _, op := range ops {
		if op == nil || *op == nil {
			continue
		}
		if flowsInto(from, *op, seen, d+1) {
			return true
		}
	}
	// values stored into an array that is then sliced (variadic arguments)
	if sl, ok := to.(*ssa.Slice); ok {
		if al, isAl := sl.X.(*ssa.Alloc); isAl && al.Referrers() != nil {
			for _, r := range *al.Referrers() {
				ia, isIA := r.(*ssa.IndexAddr)
				if !isIA || ia.Referrers() == nil {
					continue
				}
				for _, rr := range *ia.Referrers() {
					if st, isSt := rr.(*ssa.Store); isSt && flowsInto(from, st.Val, seen, d+1) {
						return true
					}
				}
			}
		}
	}
	// the address of a local the parameter was spilled into (array-typed value parameter whose
	// pointer-receiver method is called: key.ToArray())
	if al, isAl := to.(*ssa.Alloc); isAl && al.Referrers() != nil {
		for _, r := range *al.Referrers() {
			if st, isSt := r.(*ssa.Store); isSt && st.Addr == ssa.Value(al) && flowsInto(from, st.Val, seen, d+1) {
				return true
			}
		}
	}
	// a load of a local the parameter was stored into (address-taken parameter copies)
	if ld, ok := to.(*ssa.UnOp); ok {
		if al, isAl := ld.X.(*ssa.Alloc); isAl && al.Referrers() != nil {
			for _, r := range *al.Referrers() {
				if st, isSt := r.(*ssa.Store); isSt && st.Addr == ssa.Value(al) && flowsInto(from, st.Val, seen, d+1) {
					return true
				}
			}
		}
	}
	return false
}
