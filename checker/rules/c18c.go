package rules

import (
	"go/constant"
	"go/token"

	"golang.org/x/tools/go/ssa"

	"polyverif/core"
	"polyverif/eng"
	"polyverif/ir"
)

// C18 (continued) — "the operator address derived from the current consensus
// validators".  Every operator-only method compares its witness with
// GetCurConOperator(); that function must build the multi-signature address
// from exactly the peers of the current view whose status is ConsensusStatus:
//
//	pool   = GetPeerPoolMap(native, GetView(native))
//	keys   = the loop over pool.PeerPoolMap appends a key only under
//	         Status == ConsensusStatus (a disjunction with another status lets
//	         approved candidates into the operator) and appends on every such
//	         iteration (error returns excepted)
//	result = AddressFromBookkeepers(keys), returned only when err == nil
func checkOperatorDerivation(c *core.Ctx) {
	const rule = "C18.operator-derivation"
	fn := c.Fn(pkNM, "GetCurConOperator")
	gv := eng.Obj(c, pkNM, "GetView")
	gpm := eng.Obj(c, pkNM, "GetPeerPoolMap")
	afb := eng.Obj(c, pkTypes, "AddressFromBookkeepers")
	if fn == nil || gv == nil || gpm == nil || afb == nil {
		return
	}
	pos := c.P.Rel(fn.Pos())
	loops := eng.FindMapLoops(fn, func(v ssa.Value) bool { return isFieldNamed(v, "PeerPoolMap") })
	if len(loops) != 1 {
		c.Broken(rule, fn, "one loop over PeerPoolMap", pos, sprintf("%d loops", len(loops)))
		return
	}
	lp := loops[0]
	// pool provenance
	okPool := false
	if base, _, ok := fieldLoad(lp.Range.X); ok {
		if cl, idx := ir.CallOf(base); cl != nil && idx == 0 && ir.CalleeIs(cl, gpm) && len(cl.Common().Args) == 2 {
			okPool = isCallTo(cl.Common().Args[1], gv)
		}
	}
	c.Decide(okPool, rule, fn, "pool = GetPeerPoolMap(native, GetView(native)) (the current view)", c.P.Rel(lp.Range.Pos()), "")
	// appends of a public key
	var appends []ssa.CallInstruction
	for _, ci := range ir.Calls(fn, func(ci ssa.CallInstruction) bool {
		bi, ok := ci.Common().Value.(*ssa.Builtin)
		return ok && bi.Name() == "append"
	}) {
		appends = append(appends, ci)
	}
	c.Decide(len(appends) == 1, rule, fn, "one append of a peer key", pos, sprintf("%d", len(appends)))
	if len(appends) != 1 {
		return
	}
	consensusStatus, err := c.P.Const(pkNM, "ConsensusStatus")
	if err != nil {
		c.Broken(rule, fn, "ConsensusStatus constant", pos, err.Error())
		return
	}
	statusGuard := eng.NamedGuard{Name: "v.Status == ConsensusStatus", G: func(cd ir.Cond) (bool, bool) {
		b, ok := cd.V.(*ssa.BinOp)
		if !ok || (b.Op != token.EQL && b.Op != token.NEQ) || !isFieldNamed(b.X, "Status") {
			return false, false
		}
		k, okk := ir.Strip(b.Y).(*ssa.Const)
		if !okk || !constant.Compare(k.Value, token.EQL, consensusStatus) {
			return false, false
		}
		return true, b.Op == token.EQL
	}}
	eng.Dominates(c, rule, fn, statusGuard, ir.CallSinks(appends, "append(publicKeys, key)"), "a peer key enters the operator", &eng.Opt{StartBlock: lp.Body})
	// every ConsensusStatus peer is included
	pass := ir.PassEdges(fn, statusGuard.G)
	okAll := len(pass) > 0
	for _, e := range pass {
		r := ir.NewReach(fn)
		r.Barrier[appends[0]] = true
		r.RunFromBlock(e.To())
		if r.BlockEntered(lp.Header) {
			okAll = false
		}
	}
	c.Decide(okAll, rule, fn, "every ConsensusStatus peer's key is appended (failing returns excepted)", c.P.Rel(lp.Range.Pos()), "")
	// the key appended is the iteration's own key
	okKey := false
	for _, e := range eng.VariadicElems(appends[0].Common().Args[1]) {
		if pk, _ := ir.CallOf(e); pk != nil && ir.CalleeObj(pk) != nil && ir.CalleeObj(pk).Name() == "DeserializePublicKey" {
			if hx, _ := ir.CallOf(pk.Common().Args[0]); hx != nil && ir.IsPkgFunc(hx, "encoding/hex", "DecodeString") {
				if ex, isEx := ir.Strip(hx.Common().Args[0]).(*ssa.Extract); isEx && ex.Tuple == ssa.Value(lp.Next) && ex.Index == 1 {
					okKey = true
				}
			}
		}
	}
	c.Decide(okKey, rule, fn, "the appended key is DeserializePublicKey(hex(the iteration's map key))", c.P.Rel(appends[0].Pos()), "")
	// result
	calls := ir.CallsTo(fn, afb)
	c.Decide(len(calls) == 1, rule, fn, "one AddressFromBookkeepers call", pos, sprintf("%d", len(calls)))
	if len(calls) == 1 {
		arg := calls[0].Common().Args[0]
		okArg := false
		for _, leaf := range eng.PhiLeaves(nil, arg) {
			if leaf == appends[0].Value() {
				okArg = true
			}
		}
		c.Decide(okArg, rule, fn, "the address is computed over the collected keys", c.P.Rel(calls[0].Pos()), "")
		eng.Dominates(c, rule, fn, eng.ErrNilOf("AddressFromBookkeepers", afb), ir.SuccessSinks(fn), "nil-error return", nil)
		// the value returned on success is that address
		okRet := false
		for _, s := range ir.SuccessSinks(fn) {
			if ret, isRet := s.Instr.(*ssa.Return); isRet && len(ret.Results) == 2 {
				if cl, idx := ir.CallOf(ret.Results[0]); cl != nil && idx == 0 && ir.CalleeIs(cl, afb) {
					okRet = true
				} else {
					okRet = false
					break
				}
			}
		}
		c.Decide(okRet, rule, fn, "the address returned with a nil error is the AddressFromBookkeepers result", pos, "")
	}
}
