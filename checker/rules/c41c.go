package rules

import (
	"go/token"

	"golang.org/x/tools/go/ssa"

	"polyverif/core"
	"polyverif/ir"
)

// C41 (continued) — "one committer, one commit".  newBlockCommitment scans the
// commit messages already recorded for the round; once an entry of the SAME
// COMMITTER is found the function returns (nil for an identical re-broadcast,
// errDupCommit otherwise) — nothing is recorded.  If the match is narrowed by a
// further condition (same proposer …) an equivocating committer is recorded
// once per proposal and counted as a distinct supporter of each.
func checkOneCommitPerCommitter(c *core.Ctx) {
	const rule = "C41.one-commit-per-committer"
	fn := c.Fn(pkVbft, "BlockPool.newBlockCommitment")
	if fn == nil {
		return
	}
	// the append to CommitMsgs
	var appends []ssa.Instruction
	for _, st := range allFieldStores(fn, "CommitMsgs") {
		appends = append(appends, st)
	}
	c.Decide(len(appends) == 1, rule, fn, "one recording site (CommitMsgs = append(…))", c.P.Rel(fn.Pos()), sprintf("%d", len(appends)))
	if len(appends) != 1 {
		return
	}
	found := 0
	for _, cd := range ir.Conds(fn) {
		b, ok := cd.V.(*ssa.BinOp)
		if !ok || (b.Op != token.EQL && b.Op != token.NEQ) {
			continue
		}
		if !isFieldNamed(b.X, "Committer") || !isFieldNamed(b.Y, "Committer") {
			continue
		}
		found++
		eqIdx := cd.TrueIdx()
		if b.Op == token.NEQ {
			eqIdx = cd.FalseIdx()
		}
		hit := cd.If.Block().Succs[eqIdx]
		r := ir.NewReach(fn).RunFromBlock(hit)
		bad := ""
		if r.Instr(appends[0]) {
			bad = "from the same-committer edge the commit can still be recorded"
		}
		// back to the scan (next existing entry) means the match was not decisive
		if r.BlockEntered(cd.If.Block()) {
			bad = "from the same-committer edge the scan continues: the match is narrowed by a further condition, so a second commit of that committer (for another proposal) is recorded"
		}
		c.Decide(bad == "", rule, fn, "an existing commit of the same committer ends the call without recording anything", c.P.Rel(b.Pos()), bad)
	}
	if found == 0 {
		c.Violate(rule, fn, "the recorded commits are scanned for the committer of the new one", c.P.Rel(fn.Pos()), "no comparison of .Committer fields found")
	}
}
