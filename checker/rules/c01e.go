package rules

import (
	"go/token"

	"golang.org/x/tools/go/ssa"

	"polyverif/core"
	"polyverif/eng"
	"polyverif/ir"
)

// C01 (continued) — the stream decoder hands back a byte string of the
// announced length or fails: in serialization.byteXReader every error-free
// return other than the empty one is reached only after io.ReadFull reported no
// error, or after the number of bytes actually copied was found EQUAL to the
// requested length.  A weaker comparison (>=) accepts a short read whenever the
// announced length converts to a negative int64.
func checkStreamExactLength(c *core.Ctx) {
	const rule = "C01.stream-length-exact"
	fn := c.Fn(pkSerialization, "byteXReader")
	if fn == nil {
		return
	}
	xP := paramByName(fn, "x")
	if xP == nil {
		c.Broken(rule, fn, "length parameter x", c.P.Rel(fn.Pos()), "not found")
		return
	}
	isX := func(v ssa.Value) bool { return ir.Strip(v) == ssa.Value(xP) }
	empty := relGuard("x == 0", isX, isConstInt(0), token.EQL)
	isCopied := func(v ssa.Value) bool {
		cl, idx := ir.CallOf(v)
		if cl == nil || idx > 0 || ir.CalleeObj(cl) == nil {
			return false
		}
		switch ir.CalleeObj(cl).Name() {
		case "ReadFrom", "CopyN", "Copy", "ReadAtLeast":
			return true
		}
		return false
	}
	exact := eng.NamedGuard{Name: "io.ReadFull err==nil ∨ bytes copied == int64(x)", G: ir.Or(
		ir.ErrNil(func(cl *ssa.Call) bool { return ir.IsPkgFunc(cl, "io", "ReadFull") }),
		relGuardExact("bytes copied == int64(x)", isCopied, isX, token.EQL).G)}
	n := 0
	for _, s := range ir.SuccessSinks(fn) {
		if quietDominates(fn, empty, s) {
			continue
		}
		n++
		eng.Dominates(c, rule, fn, exact, []ir.Sink{s}, "non-empty byte string returned", nil)
	}
	c.Floor("non-empty successful returns of byteXReader", n, 2)
}
