package rules

import (
	"golang.org/x/tools/go/ssa"
)

// pureDelegate: fn's body is `return g(p1, …, pk)` with g a function of the
// same package and the arguments being fn's own (non-receiver) parameters in
// order.  Returns g.
func pureDelegate(fn *ssa.Function) *ssa.Function {
	if len(fn.Blocks) != 1 {
		return nil
	}
	var call *ssa.Call
	for _, in := range fn.Blocks[0].Instrs {
		switch x := in.(type) {
		case *ssa.Call:
			if call != nil {
				return nil
			}
			call = x
		case *ssa.Return:
			if call == nil || len(x.Results) != 1 || x.Results[0] != ssa.Value(call) {
				return nil
			}
		case *ssa.DebugRef:
		default:
			return nil
		}
	}
	if call == nil {
		return nil
	}
	g := call.Common().StaticCallee()
	if g == nil || g.Pkg != fn.Pkg || len(g.Blocks) == 0 {
		return nil
	}
	params := fn.Params
	if fn.Signature.Recv() != nil && len(params) > 0 {
		params = params[1:]
	}
	args := call.Common().Args
	if len(args) != len(params) {
		return nil
	}
	for i := range args {
		if args[i] != ssa.Value(params[i]) {
			return nil
		}
	}
	return g
}
