package rules

import (
	"golang.org/x/tools/go/ssa"

	"polyverif/core"
	"polyverif/ir"
)

// C43 (continued) — "imported, saved, reloaded and decrypted to the same key
// pair".  getAccountMetadata (export) and ImportAccount (import) are inverse
// field copies between AccountData and AccountMetadata.  The stored strings are
// later interpreted case-sensitively (the key-type switch of the decryptor knows
// "Ed25519", not "ED25519"), so the import must store each field VERBATIM: for
// every pair  meta.M = data.D  of the exporter the importer has  data.D = meta.M
// with no call in between.
func checkImportExportInverse(c *core.Ctx) {
	const rule = "C43.import-verbatim"
	exp := c.Fn("account", "ClientImpl.getAccountMetadata")
	imp := c.Fn("account", "ClientImpl.ImportAccount")
	if exp == nil || imp == nil {
		return
	}
	// copies(fn): destination field -> (source field, verbatim?)
	type src struct {
		field    string
		verbatim bool
		pos      ssa.Instruction
	}
	copies := func(fn *ssa.Function) map[string]src {
		out := map[string]src{}
		for _, b := range fn.Blocks {
			for _, in := range b.Instrs {
				st, ok := in.(*ssa.Store)
				if !ok {
					continue
				}
				fa, ok := st.Addr.(*ssa.FieldAddr)
				if !ok {
					continue
				}
				dst := fieldNameOf(fa)
				if _, f, okl := fieldLoad(st.Val); okl {
					if _, seen := out[dst]; !seen {
						out[dst] = src{f, true, st}
					}
					continue
				}
				// a transformed copy: find a field load feeding the stored value through calls
				// (a later conditional re-assignment of an already copied field, e.g. the label
				// rename on collision, does not replace the verbatim copy)
				if f := feedingField(st.Val, 4); f != "" {
					if _, seen := out[dst]; !seen {
						out[dst] = src{f, false, st}
					}
				}
			}
		}
		return out
	}
	e, i := copies(exp), copies(imp)
	n := 0
	for _, m := range ir.SortedKeys(e) {
		d := e[m]
		if !d.verbatim {
			continue
		}
		back, ok := i[d.field]
		if !ok || back.field != m {
			continue // not a mirrored pair (IsDefault, Param["curve"] …)
		}
		n++
		c.Decide(back.verbatim, rule, imp, "data."+d.field+" = meta."+m+" is stored verbatim (mirror of the exporter's meta."+m+" = data."+d.field+")", c.P.Rel(back.pos.Pos()),
			"the imported value is transformed before it is stored; the stored string is interpreted case-sensitively when the key is decrypted")
	}
	c.Floor("mirrored export/import field pairs", n, 8)
}

// feedingField: name of a struct field whose load flows into v through at most depth calls/conversions.
func feedingField(v ssa.Value, depth int) string {
	if depth == 0 {
		return ""
	}
	if _, f, ok := fieldLoad(v); ok {
		return f
	}
	switch x := v.(type) {
	case *ssa.Call:
		for _, a := range x.Common().Args {
			if f := feedingField(a, depth-1); f != "" {
				return f
			}
		}
	case *ssa.Convert:
		return feedingField(x.X, depth-1)
	case *ssa.ChangeType:
		return feedingField(x.X, depth-1)
	case *ssa.MakeInterface:
		return feedingField(x.X, depth-1)
	}
	return ""
}
