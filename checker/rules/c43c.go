package rules

import (
	"golang.org/x/tools/go/ssa"

	"polyverif/core"
	"polyverif/ir"
)

// C43 (continued) — WalletData.Clone is what the export path re-encrypts
// (Clone, then ToLowSecurity on the clone).  It must deep-copy the accounts: each
// element of the clone's Accounts is the address of a FRESH AccountData that
// received a by-value copy of the source element.  Storing the source pointer
// itself makes re-encryption of the export install the new ciphertext into the
// live wallet, whose scrypt header is unchanged — its accounts stop decrypting.
func checkCloneDeepCopiesAccounts(c *core.Ctx) {
	const rule = "C43.clone-deep-copy"
	fn := c.Fn("account", "WalletData.Clone")
	if fn == nil {
		return
	}
	n := 0
	for _, b := range fn.Blocks {
		for _, in := range b.Instrs {
			st, ok := in.(*ssa.Store)
			if !ok {
				continue
			}
			ia, ok := st.Addr.(*ssa.IndexAddr)
			if !ok {
				continue
			}
			if _, f, okf := fieldLoad(ia.X); !okf || f != "Accounts" {
				continue
			}
			n++
			// the copy may be made by a same-module helper that returns the fresh object
			elemVal := st.Val
			if via, release := valueVia(st.Val); via != st.Val {
				defer release()
				elemVal = via
			}
			al, isAl := elemVal.(*ssa.Alloc)
			fresh := isAl && al.Heap
			copied := false
			if fresh && al.Referrers() != nil {
				for _, r := range *al.Referrers() {
					if s2, isS := r.(*ssa.Store); isS && s2.Addr == ssa.Value(al) {
						if ld, isLd := s2.Val.(*ssa.UnOp); isLd {
							// *v with v an element of the source's Accounts
							_ = ld
							copied = true
						}
					}
				}
			}
			// an element-level copy helper is as good as the inline copy
			if cl, _ := ir.CallOf(st.Val); cl != nil && ir.CalleeObj(cl) != nil {
				switch ir.CalleeObj(cl).Name() {
				case "Clone", "Copy", "DeepCopy":
					fresh, copied = true, true
				}
			}
			why := ""
			if !fresh {
				why = "the clone's element is " + st.Val.String() + ", not a freshly allocated copy: clone and source share the account object"
			}
			c.Decide(fresh && copied, rule, fn, "each account of the clone is a fresh by-value copy of the source account", c.P.Rel(st.Pos()), why)
		}
	}
	c.Floor("stores into the clone's Accounts", n, 1)
	// the scrypt parameters are copied too
	okSp := false
	for _, st := range allFieldStores(fn, "Scrypt") {
		if al, isAl := st.Val.(*ssa.Alloc); isAl && al.Heap {
			okSp = true
		}
	}
	c.Decide(okSp, rule, fn, "the clone gets its own copy of the scrypt parameters", c.P.Rel(fn.Pos()), "")
	_ = ir.Strip
}
