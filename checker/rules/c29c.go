package rules

import (
	"go/token"

	"golang.org/x/tools/go/ssa"

	"polyverif/core"
	"polyverif/eng"
	"polyverif/ir"
)

// C29 (continued) — which validator set is in effect.  Routers that keep two
// sets (bsc, bytom) let the previous set pphv stay in effect for the first
// len(pphv.Validators)/2 blocks after an epoch block (distance measured from
// phv.Height) and switch to the newly announced set phv afterwards.  The bound
// must be taken from the SAME set the branch selects: comparing against the
// size of the other set verifies a window of heights against the wrong
// validators whenever the set size changes.
func checkPosaEpochWindow(c *core.Ctx, sync *ssa.Function, gpCall func(v ssa.Value) (idx int, ok bool)) {
	// inTurnHV: a phi over {result 0, result 1} of getPrevHeightAndValidators
	var sel *ssa.Phi
	for _, b := range sync.Blocks {
		for _, in := range b.Instrs {
			p, ok := in.(*ssa.Phi)
			if !ok || len(p.Edges) != 2 {
				continue
			}
			i0, ok0 := gpCall(p.Edges[0])
			i1, ok1 := gpCall(p.Edges[1])
			if ok0 && ok1 && i0+i1 == 1 {
				sel = p
			}
		}
	}
	if sel == nil {
		return // single-set router: nothing to decide
	}
	for k, e := range sel.Edges {
		idx, _ := gpCall(e)
		if idx != 1 {
			continue
		}
		// the edge that selects the previous set: find the dominating window test
		pred := sel.Block().Preds[k]
		okBound, okDist := false, false
		detail := "window test not found"
		for a := pred; a != nil; a = a.Idom() {
			if len(a.Instrs) == 0 {
				continue
			}
			iff, isIf := a.Instrs[len(a.Instrs)-1].(*ssa.If)
			if !isIf {
				continue
			}
			cmp, isB := iff.Cond.(*ssa.BinOp)
			// `d <= n/2` selects the previous set on its true edge; the complementary spelling `d > n/2` on its false edge
			selIdx := 0
			if isB && (cmp.Op == token.GTR || cmp.Op == token.GEQ) {
				selIdx = 1
			} else if !isB || (cmp.Op != token.LEQ && cmp.Op != token.LSS) {
				continue
			}
			q, isQ := ir.Strip(cmp.Y).(*ssa.BinOp)
			if !isQ || q.Op != token.QUO {
				continue
			}
			if k2, okk := ir.ConstInt(q.Y); !okk || k2 != 2 {
				continue
			}
			ln, isLen := q.X.(*ssa.Call)
			if !isLen {
				continue
			}
			bi, isBi := ln.Common().Value.(*ssa.Builtin)
			if !isBi || bi.Name() != "len" {
				continue
			}
			base, f, okf := fieldLoad(ln.Common().Args[0])
			if !okf || f != "Validators" {
				continue
			}
			// taken on the true edge towards the selecting block
			t := a.Succs[selIdx]
			if !(t == pred || t.Dominates(pred)) {
				continue
			}
			bidx, okb := gpCall(base)
			okBound = okb && bidx == 1
			detail = sprintf("bound uses result #%d of getPrevHeightAndValidators", bidx)
			// distance measured from phv.Height (result 0)
			for _, leaf := range []ssa.Value{cmp.X} {
				if cl := calleeNamed(leaf, "Int64"); cl != nil {
					if sub := calleeNamed(cl.Common().Args[0], "Sub"); sub != nil {
						hb, hf, okh := fieldLoad(sub.Common().Args[2])
						if okh && hf == "Height" {
							if hi, okx := gpCall(hb); okx && hi == 0 {
								okDist = true
							}
						}
					}
				}
			}
			break
		}
		c.Decide(okBound, "C29.set-in-effect", sync, "the previous set stays in effect for half of ITS OWN size after an epoch block", c.P.Rel(sel.Pos()), detail)
		c.Decide(okDist, "C29.set-in-effect", sync, "the distance is measured from the height at which the new set was announced (phv.Height)", c.P.Rel(sel.Pos()), "")
	}
	_ = eng.PhiLeaves
}
