package rules

import (
	"go/token"

	"golang.org/x/tools/go/ssa"

	"polyverif/core"
	"polyverif/eng"
	"polyverif/ir"
)

// dominatesEq decides "L == R dominates the sinks".  An equality may be tested
// in one comparison (`==`, or `!=` rejecting) or as the conjunction of the two
// one-sided tests (`n < 1 || n > 1` rejecting): it holds iff both L <= R and
// L >= R dominate.  One obligation is recorded.
func dominatesEq(c *core.Ctx, rule string, fn *ssa.Function, name string, isL, isR func(ssa.Value) bool, sinks []ir.Sink, sinkDesc string) bool {
	if fn == nil {
		return false
	}
	eq := relGuard(name, isL, isR, token.EQL)
	allEq := len(sinks) > 0
	for _, s := range sinks {
		if !quietDominates(fn, eq, s) {
			allEq = false
		}
	}
	if allEq {
		return eng.Dominates(c, rule, fn, eq, sinks, sinkDesc, nil)
	}
	le := relGuard(name+" (≤ half)", isL, isR, token.LEQ)
	ge := relGuard(name+" (≥ half)", isL, isR, token.GEQ)
	both := len(sinks) > 0
	for _, s := range sinks {
		if !quietDominates(fn, le, s) || !quietDominates(fn, ge, s) {
			both = false
		}
	}
	if both {
		c.Touch(fn)
		c.Hold(rule, fn, name+" ≺ "+sinkDesc, c.P.Rel(fn.Pos()), "as the conjunction of the two one-sided tests")
		return true
	}
	// report through the ordinary path (gives the offending path)
	return eng.Dominates(c, rule, fn, eq, sinks, sinkDesc, nil)
}
