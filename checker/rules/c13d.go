package rules

import (
	"go/token"

	"golang.org/x/tools/go/ssa"

	"polyverif/core"
	"polyverif/eng"
	"polyverif/ir"
)

// checkSubmitBlockRoot — the single commit point ties a committed header's
// BlockRoot to the node's own block accumulator: every store operation of
// submitBlock is dominated by  Height==0 ∨ computed root == Header.BlockRoot
// (the only exemption is the genesis block, recognised by its height — not by
// whatever the header carries in the field), the computed root is
// GetBlockRootWithPreBlockHashes(Header.Height, [Header.PrevBlockHash]), and the
// leaf appended to the accumulator when the block is saved is that same
// Header.PrevBlockHash (taken from the block being saved, not from a tip read
// that recovery has already advanced).  Shared by C13 (valid successors) and
// C08 (served block proofs verify against committed headers).
func checkSubmitBlockRoot(c *core.Ctx, rule string, withGuard bool) {
	if fn := c.Fn(pkLedger, "LedgerStoreImp.submitBlock"); fn != nil && withGuard {
		gbr := eng.Obj(c, pkLedger, "LedgerStoreImp.GetBlockRootWithPreBlockHashes")
		isRootField := func(v ssa.Value) bool {
			if isFieldNamed(v, "BlockRoot") {
				return true
			}
			// an array value held in a named local
			if ld, ok := v.(*ssa.UnOp); ok {
				if al, isAl := ld.X.(*ssa.Alloc); isAl {
					if sv := ir.SingleStore(al); sv != nil {
						return isFieldNamed(sv, "BlockRoot")
					}
				}
			}
			return false
		}
		isComputedRoot := func(v ssa.Value) bool {
			if isCallTo(v, gbr) {
				return true
			}
			if ld, ok := v.(*ssa.UnOp); ok {
				if al, isAl := ld.X.(*ssa.Alloc); isAl {
					if sv := ir.SingleStore(al); sv != nil {
						return isCallTo(sv, gbr)
					}
				}
			}
			return false
		}
		g := eng.NamedGuard{Name: "Height==0 ∨ GetBlockRootWithPreBlockHashes(…)==Header.BlockRoot", G: ir.Or(
			relGuard("Height == 0", func(v ssa.Value) bool { return isFieldNamed(v, "Height") }, isConstInt(0), token.EQL).G,
			relGuard("computed root == Header.BlockRoot", isComputedRoot, isRootField, token.EQL).G)}
		var sinks []ir.Sink
		// directly, or inside a private helper submitBlock calls (e.g. the commit sequence)
		for _, ci := range ir.CallsThrough(fn, func(ci ssa.CallInstruction) bool {
			o := ir.CalleeObj(ci)
			if o == nil {
				return false
			}
			switch o.Name() {
			case "NewBatch", "CommitTo", "saveBlockToBlockStore", "saveBlockToStateStore", "saveBlockToEventStore", "setCurrentBlock":
				return true
			}
			return false
		}, 2) {
			note := "store operation"
			if o := ir.CalleeObj(ci); o != nil {
				note = o.Name()
			}
			sinks = append(sinks, ir.Sink{Instr: ci, Note: note})
		}
		c.Floor("store operations in submitBlock ("+rule+")", len(sinks), 4)
		eng.Dominates(c, rule, fn, g, sinks, "every batch/save/commit operation", nil)
		for _, cl := range ir.CallsTo(fn, gbr) {
			a := cl.Common().Args
			okH := isFieldNamed(a[1], "Height")
			elems := eng.VariadicElems(a[2])
			okP := len(elems) == 1 && isFieldNamed(elems[0], "PrevBlockHash")
			c.Decide(okH && okP, rule, fn, "blockRoot = GetBlockRootWithPreBlockHashes(Header.Height, [Header.PrevBlockHash])", c.P.Rel(cl.Pos()), "")
		}
	}
	// the leaf appended on save
	fn := c.Fn(pkLedger, "LedgerStoreImp.saveBlockToStateStore")
	add := eng.Obj(c, pkLedger, "StateStore.AddBlockMerkleTreeRoot")
	if fn == nil || add == nil {
		return
	}
	calls := ir.CallsTo(fn, add)
	c.Decide(len(calls) == 1, rule, fn, "one AddBlockMerkleTreeRoot call per saved block", c.P.Rel(fn.Pos()), sprintf("%d", len(calls)))
	block := paramByName(fn, "block")
	for _, cl := range calls {
		arg := cl.Common().Args[1]
		ok := false
		if hdr, f, okf := fieldLoad(arg); okf && f == "PrevBlockHash" {
			if b, f2, ok2 := fieldLoad(hdr); ok2 && f2 == "Header" && block != nil && ir.Strip(b) == ssa.Value(block) {
				ok = true
			}
		}
		c.Decide(ok, rule, fn, "the accumulator leaf appended is block.Header.PrevBlockHash of the block being saved", c.P.Rel(cl.Pos()),
			"the leaf comes from another source (e.g. the in-memory tip): when recovery replays a block the tip is already ahead and a wrong leaf is persisted")
	}
	var rets []ir.Sink
	for _, s := range ir.SuccessSinks(fn) {
		rets = append(rets, s)
	}
	if len(calls) == 1 && len(rets) > 0 {
		eng.MustPassCall(c, rule, fn, "AddBlockMerkleTreeRoot", eng.CallPred(add), rets, "nil return of saveBlockToStateStore", nil)
	}
}
