// Package load is the L0 loader: it type-checks every package of /repo from
// source (no export data, no cgo) and lowers the module's packages to SSA.
//
// The standard drivers (go/packages, go vet -vettool) cannot see the native
// contract entrances of polynetwork/poly in this sandbox because a cgo
// dependency (harmony-one/bls) needs a C header that is not installed.  A
// source-level load with types.Config.FakeImportC does not have that problem.
package load

import (
	"bytes"
	"encoding/json"
	"fmt"
	"go/ast"
	"go/parser"
	"go/token"
	"go/types"
	"io"
	"os"
	"os/exec"
	"path/filepath"
	"runtime"
	"sort"
	"strings"
	"sync"

	"golang.org/x/tools/go/ssa"
)

const ModulePath = "github.com/polynetwork/poly"

type listPkg struct {
	ImportPath string
	Dir        string
	GoFiles    []string
	CgoFiles   []string
	ImportMap  map[string]string
	Imports    []string
	Standard   bool
	Module     *struct {
		Path      string
		GoVersion string
		Main      bool
	}
	Error *struct{ Err string }
}

// Package is one type-checked package.
type Package struct {
	Path   string
	Dir    string
	Files  []*ast.File
	Types  *types.Package
	Info   *types.Info
	Module bool // belongs to polynetwork/poly
	Errs   []error
	SSA    *ssa.Package
}

// Program is the loaded repository.
type Program struct {
	Repo     string
	Fset     *token.FileSet
	Pkgs     map[string]*Package
	Order    []*Package // dependency order
	Mod      []*Package // module packages, sorted by path
	SSA      *ssa.Program
	TypeErrs map[string][]error
	Context  string // GOOS/GOARCH
}

// Options for Load.
type Options struct {
	Repo   string
	GOOS   string
	GOARCH string
	// Overlay maps absolute file names to replacement contents (used by the
	// thorough tier's in-memory breakers).
	Overlay map[string][]byte
}

// allowed type errors: packages that cannot type-check here for reasons that
// have nothing to do with the properties.
var allowTypeErr = map[string]string{
	ModulePath: "root package has two mains (main.go, sigsvr.go); the Makefile builds them file by file",
	"github.com/harmony-one/harmony/crypto/bls":     "constant of fake-C type",
	"github.com/harmony-one/harmony/internal/utils": "depends on fake-C",
	"github.com/harmony-one/bls/ffi/go/bls":         "cgo (bls.h not installed); FakeImportC",
}

func goEnv(o Options) []string {
	env := []string{}
	for _, e := range os.Environ() {
		if strings.HasPrefix(e, "GOWORK=") || strings.HasPrefix(e, "GOFLAGS=") || strings.HasPrefix(e, "GOOS=") || strings.HasPrefix(e, "GOARCH=") {
			continue
		}
		env = append(env, e)
	}
	env = append(env, "GOWORK=off", "GOPROXY=off", "GOSUMDB=off", "GOTOOLCHAIN=local", "CGO_ENABLED=1")
	if o.GOOS != "" {
		env = append(env, "GOOS="+o.GOOS)
	}
	if o.GOARCH != "" {
		env = append(env, "GOARCH="+o.GOARCH)
	}
	return env
}

func copyFile(dst, src string) error {
	in, err := os.Open(src)
	if err != nil {
		return err
	}
	defer in.Close()
	out, err := os.Create(dst)
	if err != nil {
		return err
	}
	defer out.Close()
	_, err = io.Copy(out, in)
	return err
}

// Load loads the repository.
func Load(o Options) (*Program, error) {
	if o.Repo == "" {
		o.Repo = "/repo"
	}
	scratch, err := os.MkdirTemp("", "polyverif-mod-")
	if err != nil {
		return nil, err
	}
	defer os.RemoveAll(scratch)
	if err := copyFile(filepath.Join(scratch, "go.mod"), filepath.Join(o.Repo, "go.mod")); err != nil {
		return nil, err
	}
	if err := copyFile(filepath.Join(scratch, "go.sum"), filepath.Join(o.Repo, "go.sum")); err != nil {
		return nil, err
	}
	cmd := exec.Command("go", "list", "-e", "-mod=mod", "-modfile="+filepath.Join(scratch, "go.mod"), "-deps",
		"-json=ImportPath,Dir,GoFiles,CgoFiles,ImportMap,Imports,Standard,Module,Error", "./...")
	cmd.Dir = o.Repo
	cmd.Env = goEnv(o)
	var stderr bytes.Buffer
	cmd.Stderr = &stderr
	out, err := cmd.Output()
	if err != nil {
		return nil, fmt.Errorf("go list: %v\n%s", err, stderr.String())
	}
	var lps []*listPkg
	dec := json.NewDecoder(bytes.NewReader(out))
	for dec.More() {
		lp := new(listPkg)
		if err := dec.Decode(lp); err != nil {
			return nil, fmt.Errorf("go list json: %v", err)
		}
		lps = append(lps, lp)
	}
	if len(lps) == 0 {
		return nil, fmt.Errorf("go list returned no packages")
	}

	p := &Program{Repo: o.Repo, Fset: token.NewFileSet(), Pkgs: map[string]*Package{}, TypeErrs: map[string][]error{}}
	p.Context = o.GOOS + "/" + o.GOARCH

	// parse in parallel
	type parsed struct {
		files []*ast.File
		errs  []error
	}
	res := make([]parsed, len(lps))
	var wg sync.WaitGroup
	sem := make(chan struct{}, runtime.NumCPU())
	for i, lp := range lps {
		if lp.ImportPath == "unsafe" {
			continue
		}
		wg.Add(1)
		go func(i int, lp *listPkg) {
			defer wg.Done()
			sem <- struct{}{}
			defer func() { <-sem }()
			isMod := lp.Module != nil && lp.Module.Path == ModulePath
			names := append(append([]string{}, lp.GoFiles...), lp.CgoFiles...)
			for _, n := range names {
				fn := filepath.Join(lp.Dir, n)
				var src interface{}
				if o.Overlay != nil {
					if b, ok := o.Overlay[fn]; ok {
						src = b
					}
				}
				mode := parser.SkipObjectResolution
				if isMod {
					mode |= parser.ParseComments
				}
				f, err := parser.ParseFile(p.Fset, fn, src, mode)
				if err != nil {
					res[i].errs = append(res[i].errs, err)
				}
				if f != nil {
					res[i].files = append(res[i].files, f)
				}
			}
		}(i, lp)
	}
	wg.Wait()

	sizes := types.SizesFor("gc", "amd64")
	if o.GOARCH == "386" {
		sizes = types.SizesFor("gc", "386")
	}
	for i, lp := range lps {
		if lp.ImportPath == "unsafe" {
			continue
		}
		isMod := lp.Module != nil && lp.Module.Path == ModulePath
		pk := &Package{Path: lp.ImportPath, Dir: lp.Dir, Files: res[i].files, Module: isMod}
		pk.Errs = append(pk.Errs, res[i].errs...)
		if lp.Error != nil && isMod && lp.ImportPath != ModulePath {
			pk.Errs = append(pk.Errs, fmt.Errorf("go list: %s", lp.Error.Err))
		}
		imap := lp.ImportMap
		conf := types.Config{
			FakeImportC:      len(lp.CgoFiles) > 0,
			IgnoreFuncBodies: !isMod,
			Sizes:            sizes,
			Importer: importerFunc(func(path string) (*types.Package, error) {
				if path == "unsafe" {
					return types.Unsafe, nil
				}
				if m, ok := imap[path]; ok {
					path = m
				}
				if q, ok := p.Pkgs[path]; ok && q.Types != nil {
					return q.Types, nil
				}
				return nil, fmt.Errorf("package %q not loaded", path)
			}),
			Error: func(err error) { pk.Errs = append(pk.Errs, err) },
		}
		if lp.Module != nil && lp.Module.GoVersion != "" {
			conf.GoVersion = "go" + lp.Module.GoVersion
		}
		pk.Info = &types.Info{}
		if isMod {
			pk.Info = &types.Info{
				Types:      map[ast.Expr]types.TypeAndValue{},
				Defs:       map[*ast.Ident]types.Object{},
				Uses:       map[*ast.Ident]types.Object{},
				Implicits:  map[ast.Node]types.Object{},
				Selections: map[*ast.SelectorExpr]*types.Selection{},
				Scopes:     map[ast.Node]*types.Scope{},
				Instances:  map[*ast.Ident]types.Instance{},
			}
		}
		tp, _ := conf.Check(lp.ImportPath, p.Fset, pk.Files, pk.Info)
		pk.Types = tp
		p.Pkgs[lp.ImportPath] = pk
		p.Order = append(p.Order, pk)
		if len(pk.Errs) > 0 {
			p.TypeErrs[lp.ImportPath] = pk.Errs
		}
		if isMod {
			p.Mod = append(p.Mod, pk)
		}
	}
	sort.Slice(p.Mod, func(i, j int) bool { return p.Mod[i].Path < p.Mod[j].Path })

	// fail-closed assertions
	if len(p.Mod) < 130 {
		return nil, fmt.Errorf("only %d module packages loaded (floor 130)", len(p.Mod))
	}
	for path, errs := range p.TypeErrs {
		if _, ok := allowTypeErr[path]; ok {
			continue
		}
		pk := p.Pkgs[path]
		if pk.Module {
			return nil, fmt.Errorf("type errors in module package %s: %v", path, errs[0])
		}
	}

	// SSA
	prog := ssa.NewProgram(p.Fset, ssa.BuilderMode(0))
	prog.CreatePackage(types.Unsafe, nil, nil, true)
	for _, pk := range p.Order {
		if pk.Types == nil {
			continue
		}
		if pk.Module && pk.Path != ModulePath && len(pk.Errs) == 0 {
			pk.SSA = prog.CreatePackage(pk.Types, pk.Files, pk.Info, true)
		} else {
			pk.SSA = prog.CreatePackage(pk.Types, nil, nil, true)
		}
	}
	var bw sync.WaitGroup
	for _, pk := range p.Mod {
		if pk.SSA != nil && pk.Path != ModulePath {
			bw.Add(1)
			go func(s *ssa.Package) { defer bw.Done(); s.Build() }(pk.SSA)
		}
	}
	bw.Wait()
	p.SSA = prog
	return p, nil
}

type importerFunc func(path string) (*types.Package, error)

func (f importerFunc) Import(path string) (*types.Package, error) { return f(path) }

// Rel returns a repo-relative position string file:line.
func (p *Program) Rel(pos token.Pos) string {
	if !pos.IsValid() {
		return "?"
	}
	ps := p.Fset.Position(pos)
	fn := ps.Filename
	if r, err := filepath.Rel(p.Repo, fn); err == nil && !strings.HasPrefix(r, "..") {
		fn = r
	}
	return fmt.Sprintf("%s:%d", fn, ps.Line)
}
