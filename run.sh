#!/bin/sh
# usage: run.sh <property id|all> [quick|thorough]
# Every run re-loads, re-type-checks and re-lowers /repo's current working tree.
set -e
V=/verif
export GOFLAGS=-mod=mod GOPROXY=off GOSUMDB=off GOTOOLCHAIN=local
unset GOWORK
if [ ! -x $V/bin/polyverif ] || [ -n "$(find $V/checker -name '*.go' -newer $V/bin/polyverif 2>/dev/null | head -1)" ]; then
  (cd $V/checker && go build -o $V/bin/polyverif .) >&2
fi
exec $V/bin/polyverif check "$1" -tier "${2:-${VERIF_TIER:-quick}}" -repo "${VERIF_REPO:-/repo}" -verif $V
