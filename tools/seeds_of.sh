#!/bin/bash
# usage: seeds_of.sh <property id> [binary] [worktree]
# Applies each archived seeded change of one property to a scratch worktree and prints whether the
# property's check speaks (exit 1).  Quick regression loop while editing a rule.
ID=$1; BIN=${2:-/verif/bin/polyverif}; WT=${3:-/tmp/wt/s}
export GOFLAGS=-mod=mod GOPROXY=off GOSUMDB=off GOTOOLCHAIN=local; unset GOWORK
git -C $WT checkout -q -- . ; git -C $WT clean -fdq
for d in /verif/seeded/$ID-*/; do
  n=$(basename $d)
  git -C $WT apply $d/patch.diff || { echo "$n APPLY-FAILED"; continue; }
  $BIN check $ID -repo $WT -out /tmp/seeds_of_out >/tmp/seeds_of_log 2>&1; rc=$?
  echo "$n rc=$rc $(grep -c '^VIOLATION' /tmp/seeds_of_log)"
  git -C $WT checkout -q -- . ; git -C $WT clean -fdq
done
