#!/bin/bash
# usage: archive_neutral.sh <worktree> <name> <property>
# Archives a behaviour-preserving refactoring produced by a volunteer: neutral/<name>/{patch.diff, REFACTOR.md, meta.json}.
# The checks must stay silent on it (tools/neutral_check.sh, and the thorough tier).
set -u
WT=$1; NAME=$2; PROP=$3
OUT=/verif/neutral/$NAME; mkdir -p $OUT
cd $WT || exit 2
git diff > $OUT/patch.diff
[ -s $OUT/patch.diff ] || { echo "no source change"; exit 2; }
[ -f REFACTOR.md ] && cp REFACTOR.md $OUT/REFACTOR.md
python3 - <<PY
import json
json.dump({"property":"$PROP","name":"$NAME","kind":"behaviour-preserving refactoring (volunteer-produced; existing tests unchanged; see REFACTOR.md)"},open("$OUT/meta.json","w"),indent=1)
PY
echo "archived $OUT ($(grep -c '^@@' $OUT/patch.diff) hunks)"
