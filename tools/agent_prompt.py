#!/usr/bin/env python3
"""Print the prompt handed to a mutation sub-agent for property <id>. Contains only the property text."""
import json,sys
pid=sys.argv[1]
round2=len(sys.argv)>2
avoid=sys.argv[2] if round2 else ""
suffix=(sys.argv[3] if len(sys.argv)>3 else "b") if round2 else ""
p=[json.loads(l) for l in open('/verif/properties.jsonl') if json.loads(l)['id']==pid][0]
wt=f"/tmp/wt/{pid}{suffix}"
print(f"""You are helping test a verification effort for the Go repository polynetwork/poly (a cross-chain relay-chain node). You have your OWN scratch git worktree of it at {wt} (a checkout of the pinned commit). Work ONLY inside {wt}. Never touch /repo or /verif, and do not read anything under /verif.

Here is a semantic property the code base is supposed to satisfy:

  id: {p['id']}
  title: {p['title']}
  statement: {p['statement']}
  quantifier: {p['quantifier']['text']}
  code it is anchored in: {', '.join(p['anchors']['files'])}
  mechanisms: {'; '.join(m.get('name','')+' @ '+m.get('where','') for m in p['anchors']['mechanism'])}

YOUR TASK: produce ONE realistic source change (a bug a maintainer could plausibly introduce: a dropped or weakened check, a wrong key/constant/field, a reordered step, an off-by-one, a missed case in one of several sibling implementations, two cooperating edits that each look harmless...) to the non-test Go code under {wt} that BREAKS this property, while
  (a) the changed packages still compile (`go build ./<pkg>/...` and `go vet` style type-checking of every package you touched; note some packages of this repo cannot be compiled in this sandbox because a cgo header (bls.h) is missing: `native/service`, `native/service/cross_chain_manager`, `native/service/header_sync` and the `harmony` sub-packages — you MAY still edit them, but then be extra careful that the edit is type-correct, e.g. by checking with `gofmt -e` and by reading),
  (b) the existing test suite still passes for the packages you touched: `cd {wt} && go test -vet=off -count=1 ./<touched pkg>/...` (some tests in this repo fail already on the unchanged tree — those do not count; compare against the unchanged tree by saving your change with `git diff > /tmp/<yourname>.patch`, reverting with `git apply -R`, and re-applying with `git apply`; NEVER use `git stash` — the stash is shared with other worktrees),
  (c) the breakage needs something specific to manifest — a particular input, a multi-step sequence of operations, an unusual configuration, a crash/fault at a particular point, a particular interleaving, or one sibling implementation out of many — NOT something ordinary use or the existing tests would expose at once.
Prefer subtle changes (1-10 lines). Do not change any _test.go file that already exists, do not change go.mod.

Also write a DEMONSTRATION: a new Go test file (name it zz_demo_{pid.lower()}_test.go, placed in a package that compiles) or a small Go program, which FAILS with your change applied and PASSES on the unchanged tree. If the affected code lives in a package that cannot be compiled here, make the demonstration as close as you can (e.g. a test in a compilable sub-package exercising the changed function), or, if truly impossible, explain precisely in words the input/sequence that exposes the bug.

Environment: no network. Always run go with: `export GOFLAGS=-mod=mod GOPROXY=off GOSUMDB=off GOTOOLCHAIN=local`. Go 1.23 is installed.

When done, leave in {wt}:
  - the source change applied in the working tree (uncommitted),
  - {wt}/MUTATION.md describing: which file/function you changed and why it breaks the property, what is needed for the breakage to manifest, the exact commands you ran (build, existing tests, demo with and without the change) and their outcomes.
""" + (f"""
IMPORTANT: earlier volunteers already produced the following change(s) for the same property: "{avoid}". Produce something DIFFERENT from all of them: another function, another clause of the property statement, or another kind of slip (do not touch the same lines).
""" if round2 else "") + f"""Then reply with a short summary (the changed file(s), one-paragraph description, demo file path, and whether the demo fails-with/passes-without). Do not produce more than one mutation.""")
