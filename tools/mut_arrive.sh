#!/bin/bash
# usage: mut_arrive.sh <id> <suffix> <seed-name> <pkg pattern> [binary]
# confirm + archive a seeded change produced in /tmp/wt/<id><suffix>, then run the property's own check on it
id=$1; suf=$2; name=$3; pkg=$4; BIN=${5:-/tmp/pv_cur}
W=/tmp/wt/$id$suf
/verif/tools/confirm_seed.sh $W $name $id "$pkg" 2>&1 | grep -E "demo files|failing only WITH|WARNING|no source change" 
export GOFLAGS=-mod=mod GOPROXY=off GOSUMDB=off GOTOOLCHAIN=local; unset GOWORK
T=$(mktemp -d)
$BIN check $id -repo $W -out $T 2>&1 | grep -E "^violation: |^BROKEN: " | cut -c1-260 > $T/o.txt
echo "== $name: $(grep -c '^violation' $T/o.txt) violation(s), $(grep -c '^BROKEN' $T/o.txt) broken"
head -4 $T/o.txt
rm -rf $T
