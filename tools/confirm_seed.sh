#!/bin/bash
# usage: confirm_seed.sh <worktree> <seed-name> <property> <go pkg pattern for tests (relative, e.g. ./native/service/utils/...)>
# Confirms a seeded change: (1) with the change the demo fails, (2) without it the demo passes,
# (3) the pre-existing tests of the package give the same verdicts with and without the change.
set -u
WT=$1; NAME=$2; PROP=$3; PKG=$4
export GOFLAGS=-mod=mod GOPROXY=off GOSUMDB=off GOTOOLCHAIN=local; unset GOWORK
OUT=${SEED_ROOT:-/verif/seeded}/$NAME; mkdir -p $OUT
cd $WT || exit 2
git diff > $OUT/patch.diff
[ -s $OUT/patch.diff ] || { echo "no source change"; exit 2; }
DEMOS=$(git status --porcelain | awk '$1=="??"{print $2}' | grep -E 'zz_demo|demo' | grep -v MUTATION.md)
echo "demo files: $DEMOS"
run() { go test -vet=off -count=1 -json $PKG 2>&1 | python3 -c '
import sys,json
res={}
for l in sys.stdin:
    try: e=json.loads(l)
    except: continue
    if e.get("Test") and e.get("Action") in ("pass","fail"): res[e["Package"].split("poly/")[-1]+"::"+e["Test"]]=e["Action"]
    elif e.get("Action")=="fail" and not e.get("Test"): res[e["Package"].split("poly/")[-1]+"::<pkg>"]="fail"
for k in sorted(res): print(k,res[k])
'; }
run > /tmp/seed_with.txt
git apply -R $OUT/patch.diff
run > /tmp/seed_without.txt
git apply $OUT/patch.diff
echo "--- verdicts that differ (with change  |  without change):"
diff /tmp/seed_with.txt /tmp/seed_without.txt > /tmp/seed_diff.txt; cat /tmp/seed_diff.txt
for d in $DEMOS; do mkdir -p $OUT/demo/$(dirname $d); cp -r $d $OUT/demo/$(dirname $d)/; done
[ -f MUTATION.md ] && cp MUTATION.md $OUT/MUTATION.md
WITHFAIL=$(grep -c "^<.* fail" /tmp/seed_diff.txt); 
echo "demo/tests failing only WITH change: $WITHFAIL"
grep "^>.* fail" /tmp/seed_diff.txt && echo "WARNING: something fails only WITHOUT the change"
export DEMOS
python3 - <<PY
import json,os
json.dump({"property":"$PROP","name":"$NAME","test_pkg":"$PKG","demo_files":os.environ.get("DEMOS","").split(),
 "confirmed":{"fails_only_with_change":open('/tmp/seed_diff.txt').read().splitlines()}},open("$OUT/meta.json","w"),indent=1)
PY
