#!/bin/bash
# Runs /repo's test suite (guard off: no hooks exist) and compares with the 179 stable passes of BASELINE.json.
export GOFLAGS=-mod=mod GOPROXY=off GOSUMDB=off GOTOOLCHAIN=local; unset GOWORK
cd /repo && go test -json -vet=off -count=1 -timeout 25m ./... 2>/dev/null | python3 -c '
import sys,json
base=set(json.load(open("/root/.vp/BASELINE.json"))["stable_pass"])
res={}
for l in sys.stdin:
    try: e=json.loads(l)
    except: continue
    if e.get("Test") and e.get("Action") in ("pass","fail"): res[e["Package"]+"::"+e["Test"]]=e["Action"]
missing=[t for t in sorted(base) if res.get(t)!="pass"]
print("baseline stable tests:",len(base),"passing now:",len(base)-len(missing))
for t in missing: print("NOT PASSING:",t,res.get(t))
sys.exit(1 if missing else 0)
'
rc=$?
git -C /repo clean -fdq 2>/dev/null || true  # test artifacts (merkletree.db, temp.db) are not part of the tree
exit $rc
