#!/usr/bin/env python3
"""Prompt for a sub-agent that produces a BEHAVIOUR-PRESERVING refactoring of the code a property is anchored in.
Contains only the property text (nothing about /verif or its checks)."""
import json,sys
pid=sys.argv[1]; suffix=sys.argv[2] if len(sys.argv)>2 else "n"
p=[json.loads(l) for l in open('/verif/properties.jsonl') if json.loads(l)['id']==pid][0]
wt=f"/tmp/wt/{pid}{suffix}"
import glob,re
earlier=[]
for d in sorted(glob.glob(f'/verif/neutral/{pid}-refactor-*/')):
    diff=open(d+'patch.diff').read()
    funcs=sorted(set(f.strip() for f in re.findall(r'^@@[^@]*@@ ?(.*)$',diff,re.M) if f.strip()))
    files=sorted(set(re.findall(r'^\+\+\+ b/(\S+)',diff,re.M)))
    earlier.append(f"files {', '.join(files)}; near {' / '.join(funcs)[:400]}")
EARLIER=""
if earlier:
    EARLIER="\n\nAn earlier volunteer already produced such a refactoring touching: "+" || ".join(earlier)+". Produce something DIFFERENT: prefer other functions that implement the property (callers, siblings for other chains, storage accessors, the serialization helpers it relies on), and where you must touch the same function use other kinds of rewrite than they probably used — in particular try at least two of: moving a guard or a block into (or out of) a small helper, early-return vs nested-if restructuring, replacing a flag variable by direct returns (or the reverse), changing loop form, replacing a comparison by an exactly equivalent one, reordering independent checks that return the SAME error value or that cannot both fail... but only when provably equivalent.\n"
print(f"""You are helping test a verification effort for the Go repository polynetwork/poly (a cross-chain relay-chain node). You have your OWN scratch git worktree of it at {wt}. Work ONLY inside {wt}. Never touch /repo or /verif, and do not read anything under /verif.

Here is a semantic property the code base satisfies:

  id: {p['id']}
  title: {p['title']}
  statement: {p['statement']}
  code it is anchored in: {', '.join(p['anchors']['files'])}
  mechanisms: {'; '.join(m.get('name','')+' @ '+m.get('where','') for m in p['anchors']['mechanism'])}

YOUR TASK: produce a BEHAVIOUR-PRESERVING REFACTORING of the non-test Go code that implements this property — the kind of clean-up a maintainer makes without changing what the code does — so that the property STILL HOLDS afterwards. Make 3 to 6 independent edits of different kinds, spread over the functions that implement the property (total 15-80 changed lines), for example:
  - rename local variables / receivers; reorder independent statements; split a long condition into nested ifs or merge nested ifs into one condition (keeping the exact truth table);
  - invert an `if cond {{ ...; return }}` into `if !cond {{ }} else` form or the other way round; replace `if/else if` chains by `switch` (or back); replace `x == false` by `!x`;
  - turn a `for i := 0; i < len(s); i++` loop into `for i := range s` (or back) when the body does not change `s`; hoist a loop-invariant expression into a local;
  - extract a few lines into a small helper function in the same package (or inline a tiny helper); introduce a named local for a repeated sub-expression;
  - replace `a.Cmp(b) >= 0` by `a.Cmp(b) != -1`, `len(x) == 0` by `len(x) < 1`, `i += 1` by `i++`, and similar exact equivalences.
Every edit must be provably equivalent for ALL inputs (same results, same errors returned or not, same storage writes in the same order, same locking). Do NOT fix bugs, do NOT change error-message texts that tests might match, do NOT change exported signatures, do NOT touch _test.go files or go.mod.

{EARLIER}
Then CHECK: (a) the changed packages compile (`go build ./<pkg>/...`; packages `native/service`, `native/service/cross_chain_manager`, `native/service/header_sync` themselves and the `harmony` sub-packages cannot be compiled in this sandbox because a cgo header is missing — if you edit them be extra careful and check with `gofmt -e`); (b) the existing tests of the touched packages give the same results as before (`go test -vet=off -count=1 ./<pkg>/...`; some tests fail already on the unchanged tree — only differences matter; compare by saving `git diff > /tmp/{pid}{suffix}.patch`, `git apply -R`, re-apply with `git apply`; NEVER use git stash).

Environment: no network. Always: `export GOFLAGS=-mod=mod GOPROXY=off GOSUMDB=off GOTOOLCHAIN=local`.

Leave in {wt}: the refactoring applied (uncommitted) and {wt}/REFACTOR.md listing each edit (file, function, what kind of rewrite, one sentence why it is equivalent) and the commands you ran with their outcomes. Reply with a short summary of the edits.""")
