#!/usr/bin/env python3
"""Round-4 prompt: behaviour-preserving refactoring focused on named functions (those recent seeded changes touched).
Contains only the property text and function names of the repository (nothing about /verif or its checks)."""
import json,sys,glob,re,subprocess
pid=sys.argv[1]; suffix=sys.argv[2]; seeds=sys.argv[3:]
focus=[]
for sd in seeds:
    try: diff=open(f'/verif/seeded/{sd}/patch.diff').read()
    except Exception: continue
    files=re.findall(r'^\+\+\+ b/(\S+)',diff,re.M)
    funcs=sorted(set(f.strip() for f in re.findall(r'^@@[^@]*@@ ?(.*)$',diff,re.M) if f.strip().startswith('func')))
    for f in funcs:
        focus.append(f"{f[:110]}  (in {files[0] if files else '?'})")
base=subprocess.run(['python3','/verif/tools/neutral_prompt.py',pid,suffix],capture_output=True,text=True).stdout
extra="\n\nFOCUS: at least two of your edits must be inside (or directly around: extracting part of it into a helper, inlining a helper it calls, restructuring its branches or loops, renaming its locals, rewriting a comparison in an exactly equivalent form) these functions, which a maintainer is about to clean up:\n  - "+"\n  - ".join(focus)+"\nThe remaining edits may be anywhere in the code that implements the property. All edits must stay behaviour-preserving as specified above.\n" if focus else ""
marker="Then CHECK:"
print(base.replace(marker, extra+"\n"+marker,1))
