#!/usr/bin/env python3
"""Prompt for a sub-agent that must demonstrate (or refute) a suspected genuine defect and propose a minimal fix."""
import sys
import os
name, desc = sys.argv[1], sys.argv[2]
if os.path.exists(desc): desc = open(desc).read()
wt=f"/tmp/wt/{name}"
print(f"""You are helping audit the Go repository polynetwork/poly (a cross-chain relay-chain node). You have your OWN scratch git worktree at {wt} (a checkout of the pinned commit). Work ONLY inside {wt}. Never touch /repo or /verif and do not read anything under /verif.

A static analysis flagged the following SUSPECTED GENUINE DEFECT in the unchanged code:

{desc}

YOUR TASK
1. Read the code and decide whether the defect is real (can a concrete input / sequence of contract calls / history make the real code misbehave as described?). Be honest: if it is not real, say so and explain why.
2. If real: write a DEMONSTRATION — a new Go test file named zz_defect_{name.lower()}_test.go in a package that compiles in this sandbox — which drives the REAL, UNCHANGED code with a concrete failing input/sequence and asserts the CORRECT behaviour, so that it FAILS on the unchanged tree (showing the defect). Keep it self-contained (build any needed native service / cache DB / parameters in the test; look at existing *_test.go files in the same package for how they construct a NativeService with an in-memory store).
3. Then write the MINIMAL FIX a maintainer would accept (correct the behaviour; do not remove functionality, do not special-case the failing input, do not touch tests), apply it in the worktree, and show that your demonstration now PASSES and that the pre-existing tests of every package you touched give the same results as before (to compare, save your change with `git diff > /tmp/<name>.patch`, revert with `git apply -R /tmp/<name>.patch`, re-apply with `git apply`; NEVER use `git stash` — the stash is shared between worktrees; many tests in this repo already fail on the unchanged tree — only differences matter).
4. Leave in {wt}: the fix applied (uncommitted), the demo test file, and {wt}/DEFECT.md containing: verdict (real / not real), the concrete failing input or call sequence in words, the exact commands you ran with their outcomes (demo before fix = FAIL, after fix = PASS, existing tests unchanged), and the fix as a unified diff.

Environment: no network. Always: `export GOFLAGS=-mod=mod GOPROXY=off GOSUMDB=off GOTOOLCHAIN=local`. Go 1.23. Packages `native/service`, `native/service/cross_chain_manager`, `native/service/header_sync` (the three entrance packages themselves) and the `harmony` sub-packages cannot be compiled here (missing cgo header bls.h); their sub-packages (e.g. native/service/governance/*, native/service/header_sync/<chain>, native/service/cross_chain_manager/<chain>) can. Do not modify go.mod or existing _test.go files.

Reply with: verdict, one-paragraph description of the failing input/sequence, the demo file path, the fix diff, and the before/after results.""")
