#!/bin/bash
# usage: confirm_demo.sh <worktree> <seed-name> <go test args for the demo, e.g. "-run TestDemoC04 ./native/.../side_chain_manager/">
# For seeds whose package test run aborts (a pre-existing panic) or does not build: runs ONLY the demonstration,
# with the change and without it, and records both outcomes in seeded/<name>/meta.json ("demo_run").
set -u
WT=$1; NAME=$2; shift 2; ARGS="$*"
export GOFLAGS=-mod=mod GOPROXY=off GOSUMDB=off GOTOOLCHAIN=local; unset GOWORK
OUT=${SEED_ROOT:-/verif/seeded}/$NAME
cd $WT || exit 2
[ -s $OUT/patch.diff ] || git diff > $OUT/patch.diff
go test -vet=off -count=1 $ARGS > /tmp/demo_with.txt 2>&1; W=$?
git apply -R $OUT/patch.diff || exit 2
go test -vet=off -count=1 $ARGS > /tmp/demo_without.txt 2>&1; WO=$?
git apply $OUT/patch.diff
echo "$NAME: demo exit with change=$W without=$WO"
python3 - <<PY
import json
p="$OUT/meta.json"
try: m=json.load(open(p))
except Exception: m={"name":"$NAME"}
m["demo_run"]={"args":"$ARGS","exit_with_change":$W,"exit_without_change":$WO,
 "fail_lines_with_change":[l for l in open('/tmp/demo_with.txt').read().splitlines() if l.startswith('--- FAIL') or l.startswith('FAIL')][:6]}
json.dump(m,open(p,"w"),indent=1)
PY
[ $W -ne 0 ] && [ $WO -eq 0 ]
