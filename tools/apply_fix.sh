#!/bin/bash
# usage: apply_fix.sh <worktree> <defect-name> "<commit message starting with fix:>" "<test pkg patterns>" <changed file>...
# 1. extracts the fix for the given files from the defect worktree,
# 2. confirms in that worktree: demo fails without the fix, passes with it, other verdicts identical,
# 3. applies the fix to /repo and commits it (one small unguarded "fix:" commit),
# 4. archives the demonstration under /verif/defects/<name>/.
set -u
WT=$1; NAME=$2; MSG=$3; PKGS=$4; shift 4; FILES="$@"
export GOFLAGS=-mod=mod GOPROXY=off GOSUMDB=off GOTOOLCHAIN=local; unset GOWORK
OUT=/verif/defects/$NAME; mkdir -p $OUT
cd $WT || exit 2
git diff -- $FILES > $OUT/fix.patch
[ -s $OUT/fix.patch ] || { echo "empty fix"; exit 2; }
run() { go test -vet=off -count=1 -json $PKGS 2>&1 | python3 -c '
import sys,json
res={}
for l in sys.stdin:
    try: e=json.loads(l)
    except: continue
    if e.get("Test") and e.get("Action") in ("pass","fail"): res[e["Package"].split("poly/")[-1]+"::"+e["Test"]]=e["Action"]
for k in sorted(res): print(k,res[k])
'; }
git apply -R $OUT/fix.patch || exit 2
run > $OUT/verdicts_before_fix.txt
git apply $OUT/fix.patch || exit 2
run > $OUT/verdicts_after_fix.txt
echo "--- verdict changes (before fix | after fix):"
diff $OUT/verdicts_before_fix.txt $OUT/verdicts_after_fix.txt | tee $OUT/verdict_diff.txt
if grep -q "^> .* fail" $OUT/verdict_diff.txt; then echo "REGRESSION: something fails only with the fix"; exit 1; fi
if ! grep -q "^< .* fail" $OUT/verdict_diff.txt; then echo "demo did not fail before the fix"; exit 1; fi
for d in $(git status --porcelain | awk '$1=="??"{print $2}' | grep -E "zz_defect"); do mkdir -p $OUT/demo/$(dirname $d); cp $d $OUT/demo/$d; done
[ -f DEFECT.md ] && cp DEFECT.md $OUT/DEFECT.md
cd /repo && git apply $OUT/fix.patch && git add $FILES && git commit -qm "$MSG" && git log --oneline -1 | tee $OUT/commit.txt
