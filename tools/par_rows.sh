#!/bin/bash
# usage: par_rows.sh <seeded|neutral> <scratch-worktree-prefix> <workers> <rowdir>
# Worker pool behind seed_matrix.sh / neutral_check.sh: every archived patch of /verif/<kind>/ is applied to one of
# <workers> scratch worktrees of /repo (never to /repo itself), ALL registered checks are run against it and one row
# file <rowdir>/<name> is written:  "<name>\t<property>\t<applied 0|1>\t<rules that fired>\t<own-check fired 0|1>"
# The scratch worktrees are removed when the workers finish.
set -u
KIND=$1; WT=$2; N=$3; ROWS=$4
export GOFLAGS=-mod=mod GOPROXY=off GOSUMDB=off GOTOOLCHAIN=local; unset GOWORK
HEAD=$(git -C /repo rev-parse HEAD)
mkdir -p $ROWS
ls -d /verif/$KIND/*/ | while read d; do [ -f $d/patch.diff ] && basename $d; done > $ROWS/.list
worker() {
  i=$1; W=${WT}_$i
  [ -d $W ] || git -C /repo worktree add -f --detach $W HEAD >/dev/null 2>&1
  cd $W || exit 2
  git checkout -q -- . ; git clean -fdq; git checkout -q --detach $HEAD
  TMP=$(mktemp -d)
  awk -v n=$N -v i=$i 'NR % n == i' $ROWS/.list | while read name; do
    d=/verif/$KIND/$name
    prop=$(python3 -c "import json;print(json.load(open('$d/meta.json'))['property'])" 2>/dev/null || echo "${name%%-*}")
    if ! git apply $d/patch.diff 2>/dev/null; then printf '%s\t%s\t0\t-\t0\n' "$name" "$prop" > $ROWS/$name; continue; fi
    /verif/bin/polyverif check all -repo $W -out $TMP 2>&1 | grep -E "^violation: |^BROKEN: " > $TMP/out.txt
    own=0; grep -q "^violation: property=$prop " $TMP/out.txt && own=1
    rules=$(sed -E 's/^violation: property=(C[0-9]+) ([^ ]+) \|.*/\1: \2/; s/^BROKEN: property=(C[0-9]+) ([^ ]+) .*/\1: BROKEN \2/' $TMP/out.txt | sort | uniq -c | awk '{c=$1; $1=""; printf "%s×%d; ", substr($0,2), c}')
    [ -n "$rules" ] || rules=-
    printf '%s\t%s\t1\t%s\t%s\n' "$name" "$prop" "$rules" "$own" > $ROWS/$name
    git checkout -q -- . ; git clean -fdq
  done
  rm -rf $TMP
  cd / ; git -C /repo worktree remove --force $W >/dev/null 2>&1
}
for i in $(seq 0 $((N-1))); do worker $i & done
wait
