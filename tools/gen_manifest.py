#!/usr/bin/env python3
"""Regenerates /verif/MANIFEST.json from the checker's registry (`polyverif list`) and the table below."""
import json, subprocess, sys

NA = {
 "C03": "equality of ComputeMerkleRoot with a reference Merkle root for every list length is a numeric property of hashing and index arithmetic; no structural necessary condition beyond 'called on the hashes in block order' (kept under C02) exists, and executing the function is outside the static-analysis family",
 "C06": "RFC 6962 accumulator / proof-generation correctness over all tree sizes is inductive bit arithmetic over treeSize; nothing in the shape of the code decides it (the domain-tag and child-order constants are checked under C07)",
 "C09": "behavioural equivalence of the skip list with an ordered map over all operation sequences is a data-structure invariant; no sound static argument in reach decides it",
}
# techniques per property (deciding method, a few words)
TECH = {
 "C13": "guard dominance on SSA CFG (edge deletion reachability)",
 "C14": "guard dominance + quasi-linear normal forms of threshold expressions + loop-iteration must-pass",
 "C15": "guard dominance + who-may-call over VTA call graph",
 "C18": "guard dominance with value provenance; sibling template over interface implementations",
 "C20": "sibling template: guard dominance + must-pass-through + SSA value identity",
 "C21": "guard dominance + decision-table extraction + key-shape agreement",
 "C22": "must-pass-through, value-flow identity, who-may-call/who-may-write",
 "C33": "storage key-shape summaries + must-pass-through",
 "C16": "call-graph reachability of forbidden effects + map-range effect classification",
 "C19": "sibling template: key-shape pairing + guard dominance + unconditional-write chains",
 "C32": "value flow + quasi-linear normal form + loop-iteration guard dominance + call-site constants",
 "C36": "guard dominance with flag-phi feasibility + key-shape agreement + who-may-call",
}

def main():
    reg = json.loads(subprocess.check_output(["/verif/bin/polyverif", "list"]))
    props = [json.loads(l) for l in open("/verif/properties.jsonl")]
    ids = [p["id"] for p in props]
    claimed = {r["ID"]: r for r in reg}
    checks = []
    for pid in ids:
        if pid not in claimed:
            continue
        r = claimed[pid]
        checks.append({
            "property_id": pid,
            "quick_cmd": f"./run.sh {pid} quick",
            "thorough_cmd": f"./run.sh {pid} thorough",
            "evidence_file": f"/verif/evidence/{pid}.json",
            "replay_cmd_template": f"./run.sh {pid} quick   # re-derives every violation on the current tree; {{path}} holds the last report",
            "engine": "polyverif",
            "level_claimed": {
                "category": r["Level"],
                "text": r["Explain"],
                "design_ref": f"DESIGN.md §4 {pid}",
            },
            "level_note": "Decides the named structural necessary conditions on /repo's current type-checked SSA (all module packages, every run); does not execute the code. Trusted base: go/types, go/ssa (x/tools v0.29.0), the polyverif engines. Path-insensitive: infeasible paths count as feasible (can only cause an alarm or BROKEN, never a pass). Dependency code is analysed by signature only.",
            "technique": "static analysis: " + (r.get("Technique") or TECH.get(pid, "repository-specific SSA/CFG rules")),
        })
    na = []
    for pid in ids:
        if pid in claimed:
            continue
        na.append({"property_id": pid, "reason": NA.get(pid, "check not built yet (work in progress; see DESIGN.md §4 for the planned rules)")})
    m = {
        "version": 1,
        "setup_cmd": "cd /verif/checker && env -u GOWORK GOFLAGS=-mod=mod GOPROXY=off GOSUMDB=off GOTOOLCHAIN=local go build -o /verif/bin/polyverif .",
        "hooks": {
            "guard": "verif",
            "enable": "none: the checker reads /repo's source on every run; no hook is compiled into /repo",
            "baseline_off_cmd": "/verif/tools/baseline_check.sh",
            "source_commits": [],
            "add_only": True,
        },
        "engines": [{"name": "polyverif", "path": "/verif/checker", "serves_properties": sorted(claimed), "kind_free_text": "custom source-level loader (go list + go/types with FakeImportC) + go/ssa; engines: guard dominance by edge deletion, must-pass-through, call-graph who-may-call (VTA), storage key shapes, quasi-linear normal forms, loop-iteration rules, decision tables"}],
        "checks": checks,
        "notes": "Static analysis only. Exit 0 = every obligation holds (known findings printed as KNOWN-FINDING); exit 1 + 'VIOLATION property=<id> replay=<path>' = a violation not listed in known_findings.json; exit 2 = BROKEN (unresolved anchor, undecided construct, floor not met). Genuine defects found and repaired are listed as 'fixed' in known_findings.json with their demonstrations under defects/.",
        "not_applicable": na,
    }
    json.dump(m, open("/verif/MANIFEST.json", "w"), indent=1, ensure_ascii=False)
    print("checks:", len(checks), "not_applicable:", len(na))

main()
