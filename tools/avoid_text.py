#!/usr/bin/env python3
"""Print a one-line description of the seeds already archived for property <id> (names, files, functions) —
handed to a new volunteer so that they produce something different. Contains nothing about the checks."""
import sys,os,re,json,glob
pid=sys.argv[1]
out=[]
for d in sorted(glob.glob('/verif/seeded/*/')):
    try: m=json.load(open(d+'meta.json'))
    except Exception: continue
    if m.get('property')!=pid: continue
    diff=open(d+'patch.diff').read()
    files=sorted(set(re.findall(r'^\+\+\+ b/(\S+)',diff,re.M)))
    funcs=sorted(set(f.strip() for f in re.findall(r'^@@[^@]*@@ ?(.*)$',diff,re.M) if f.strip()))
    name=os.path.basename(d.rstrip('/')).split('-',1)[1].replace('-',' ')
    out.append(f"{name} [in {', '.join(files)}; near {' / '.join(funcs)[:160]}]")
print("; ".join(out))
