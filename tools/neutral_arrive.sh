#!/bin/bash
# usage: neutral_arrive.sh <id> <suffix> <n> [binary]   — archive /tmp/wt/<id><suffix> as neutral/<id>-refactor-<n>, then run ALL checks on it
id=$1; suf=$2; n=$3; BIN=${4:-/verif/bin/polyverif}
export GOFLAGS=-mod=mod GOPROXY=off GOSUMDB=off GOTOOLCHAIN=local; unset GOWORK
W=/tmp/wt/$id$suf
[ -d /verif/neutral/$id-refactor-$n ] || /verif/tools/archive_neutral.sh $W $id-refactor-$n $id >/dev/null
T=$(mktemp -d)
$BIN check all -repo $W -out $T 2>&1 | grep -E "^violation: |^BROKEN: " | cut -c1-330 > $T/o.txt
echo "== $id-refactor-$n: $(wc -l < $T/o.txt) line(s)"
cat $T/o.txt
rm -rf $T
